// Package tsref is an independent MPEG-2 transport stream demultiplexer written
// from ISO/IEC 13818-1 (ITU-T H.222.0): transport packet header (2.4.3.2),
// adaptation field (2.4.3.4/5), continuity counter rules, PES packet header
// (2.4.3.6/7), PSI sections with pointer_field (2.4.4), program association
// and program map sections (2.4.4.3, 2.4.4.8) and the CRC-32 of Annex A
// computed bit by bit.  It never imports lal.
//
// Use:
//
//	res, err := tsref.Demux(data, tsref.Options{})
//
// err != nil only when the byte stream cannot be cut into transport packets
// at all (length, sync byte); everything else a conforming multiplex must not
// do is collected in res.Problems with a stable Kind, so that each check
// decides which kinds matter for its property.
//
// Reassembly: PID 0 carries the PAT; every program_map_PID announced by a PAT
// carries PMT sections; PID 0x1FFF is the null packet; every other PID is
// treated as a PES-carrying PID and its PES packets are delimited by
// payload_unit_start_indicator (a PES packet ends where the next one on the
// same PID starts, or at the end of the input).
package tsref

import (
	"fmt"
	"sort"
)

const (
	PacketSize = 188
	SyncByte   = 0x47
	PIDPAT     = 0x0000
	PIDCAT     = 0x0001
	PIDNull    = 0x1FFF

	TableIDPAT = 0x00
	TableIDPMT = 0x02

	StreamTypeAAC     = 0x0F // ISO/IEC 13818-7 audio with ADTS transport syntax
	StreamTypeH264    = 0x1B
	StreamTypeH265    = 0x24
	StreamTypePrivate = 0x06 // PES packets containing private data

	DescriptorTagRegistration = 0x05

	tsMod = uint64(1) << 33
)

// Problem is one departure from the specification found while demultiplexing.
type Problem struct {
	Kind   string `json:"kind"`
	PID    uint16 `json:"pid"`
	Packet int    `json:"packet"` // index of the transport packet, -1 if n/a
	Msg    string `json:"msg"`
}

func (p Problem) String() string {
	return fmt.Sprintf("%s pid=0x%x packet=%d: %s", p.Kind, p.PID, p.Packet, p.Msg)
}

// Packet is one parsed transport packet.
type Packet struct {
	Index      int
	PID        uint16
	TEI        bool // transport_error_indicator
	PUSI       bool // payload_unit_start_indicator
	Priority   bool
	Scrambling uint8
	AFC        uint8 // adaptation_field_control (1 payload only, 2 AF only, 3 both)
	CC         uint8

	HasAF          bool
	AFLength       int // adaptation_field_length (bytes following the length byte)
	Discontinuity  bool
	RandomAccess   bool
	ESPriority     bool
	HasPCR         bool
	PCRBase        uint64 // 33 bit, 90 kHz
	PCRExt         uint16 // 9 bit, 27 MHz remainder, 0..299
	HasOPCR        bool
	SplicingPoint  bool
	PrivateData    []byte
	HasAFExtension bool
	Stuffing       int // number of stuffing bytes in the adaptation field

	Payload []byte // nil when AFC has no payload bit
}

// PES is one reassembled PES packet.
type PES struct {
	PID              uint16
	StreamID         uint8
	PacketLength     int // PES_packet_length field (0 = unbounded)
	HasOptHeader     bool
	Scrambling       uint8
	PESPriority      bool
	DataAlignment    bool
	Copyright        bool
	Original         bool
	PTSDTSFlags      uint8
	HasPTS, HasDTS   bool
	PTS, DTS         uint64 // 33 bit
	HeaderDataLength int
	HeaderStuffing   int    // bytes of PES_header_data_length not explained by the flags
	Payload          []byte // PES_packet_data_bytes

	// from the transport layer
	FirstPacket  int // index of the packet carrying the PES header
	LastPacket   int
	NumPackets   int  // packets that contributed (with or without payload)
	RandomAccess bool // random_access_indicator on the first packet
	HasPCR       bool // PCR on the first packet
	PCRBase      uint64
	PCRExt       uint16
	Raw          int // total PES bytes collected (header + payload)
}

// Descriptor is one (tag, data) pair of a descriptor loop.
type Descriptor struct {
	Tag  uint8
	Data []byte
}

// Section is one PSI section.
type Section struct {
	PID           uint16
	Packet        int // packet in which the section started
	TableID       uint8
	SSI           bool // section_syntax_indicator
	PrivateBit    bool // the '0' bit
	SectionLength int
	TableIDExt    uint16
	Version       uint8
	CurrentNext   bool
	SectionNumber uint8
	LastSection   uint8
	Data          []byte // between last_section_number and CRC_32 (long form) / after length (short form)
	CRC           uint32 // CRC_32 field
	CRCResidue    uint32 // CRC over the whole section incl. CRC_32; 0 when valid
	Raw           []byte // table_id .. CRC_32
}

type PATEntry struct {
	ProgramNumber uint16
	PID           uint16 // network_PID when ProgramNumber == 0, else program_map_PID
}

type PAT struct {
	Packet            int
	TransportStreamID uint16
	Version           uint8
	Entries           []PATEntry
	Section           Section
}

type ES struct {
	StreamType  uint8
	PID         uint16
	Descriptors []Descriptor
}

// Registration returns the format_identifier of the first registration
// descriptor of the elementary stream ("" if none).
func (e ES) Registration() string {
	for _, d := range e.Descriptors {
		if d.Tag == DescriptorTagRegistration && len(d.Data) >= 4 {
			return string(d.Data[:4])
		}
	}
	return ""
}

type PMT struct {
	Packet        int
	PID           uint16 // PID the section was carried on
	ProgramNumber uint16
	Version       uint8
	PCRPID        uint16
	ProgramInfo   []Descriptor
	Streams       []ES
	Section       Section
}

// CCEvent is a continuity counter observation that is not "previous + 1".
type CCEvent struct {
	PID      uint16
	Packet   int
	Expected uint8
	Got      uint8
	Kind     string // "jump" | "duplicate" | "changed-without-payload"
}

type Options struct {
	// AllowPartialTail ignores a trailing fragment shorter than one packet (a
	// stream captured up to an arbitrary instant) instead of failing.
	AllowPartialTail bool
}

// Result is everything the demultiplexer learnt.
type Result struct {
	Packets  []Packet
	PATs     []PAT
	PMTs     []PMT
	Sections []Section // all PSI sections in arrival order (including PAT/PMT)
	PES      []*PES    // in order of their first packet
	CC       []CCEvent
	Problems []Problem
	// Orphans counts, per PID, payload bytes seen before the first
	// payload_unit_start_indicator of that PID (joined mid-PES).
	Orphans map[uint16]int
	// PacketsPerPID counts transport packets per PID.
	PacketsPerPID map[uint16]int
}

// ByPID returns the PES packets of one PID in arrival order.
func (r *Result) ByPID(pid uint16) []*PES {
	var out []*PES
	for _, p := range r.PES {
		if p.PID == pid {
			out = append(out, p)
		}
	}
	return out
}

// PIDs returns the PES-carrying PIDs seen, ascending.
func (r *Result) PIDs() []uint16 {
	seen := map[uint16]bool{}
	var out []uint16
	for _, p := range r.PES {
		if !seen[p.PID] {
			seen[p.PID] = true
			out = append(out, p.PID)
		}
	}
	sort.Slice(out, func(i, j int) bool { return out[i] < out[j] })
	return out
}

// LastPMT returns the most recent program map, or nil.
func (r *Result) LastPMT() *PMT {
	if len(r.PMTs) == 0 {
		return nil
	}
	return &r.PMTs[len(r.PMTs)-1]
}

// StreamType returns the stream_type the most recent PMT declares for pid.
func (r *Result) StreamType(pid uint16) (uint8, bool) {
	if m := r.LastPMT(); m != nil {
		for _, s := range m.Streams {
			if s.PID == pid {
				return s.StreamType, true
			}
		}
	}
	return 0, false
}

// ProblemKinds returns the distinct problem kinds, sorted.
func (r *Result) ProblemKinds() []string {
	seen := map[string]bool{}
	var out []string
	for _, p := range r.Problems {
		if !seen[p.Kind] {
			seen[p.Kind] = true
			out = append(out, p.Kind)
		}
	}
	sort.Strings(out)
	return out
}

// ---------------------------------------------------------------------------
// CRC-32 (Annex A): polynomial x^32+x^26+x^23+x^22+x^16+x^12+x^11+x^10+x^8+x^7+
// x^5+x^4+x^2+x+1, shift register preset to all ones, most significant bit
// first, no final inversion.  Bit by bit on purpose.

func CRC32(b []byte) uint32 {
	crc := uint32(0xFFFFFFFF)
	for _, c := range b {
		for bit := 7; bit >= 0; bit-- {
			in := uint32(c>>uint(bit)) & 1
			msb := crc >> 31
			crc <<= 1
			if msb^in == 1 {
				crc ^= 0x04C11DB7
			}
		}
	}
	return crc
}

// ---------------------------------------------------------------------------
// transport packet

// ParsePacket parses one 188-byte transport packet.  Structural problems are
// returned as a list (the packet is still returned as far as it could be
// parsed); err != nil only for a wrong size or sync byte.
func ParsePacket(b []byte, index int) (Packet, []Problem, error) {
	var p Packet
	var probs []Problem
	p.Index = index
	if len(b) != PacketSize {
		return p, nil, fmt.Errorf("packet %d: %d bytes, want 188", index, len(b))
	}
	if b[0] != SyncByte {
		return p, nil, fmt.Errorf("packet %d: sync byte 0x%02x, want 0x47", index, b[0])
	}
	p.TEI = b[1]&0x80 != 0
	p.PUSI = b[1]&0x40 != 0
	p.Priority = b[1]&0x20 != 0
	p.PID = uint16(b[1]&0x1F)<<8 | uint16(b[2])
	p.Scrambling = b[3] >> 6
	p.AFC = (b[3] >> 4) & 3
	p.CC = b[3] & 0x0F
	add := func(kind, f string, a ...interface{}) {
		probs = append(probs, Problem{Kind: kind, PID: p.PID, Packet: index, Msg: fmt.Sprintf(f, a...)})
	}
	if p.TEI {
		add("ts-transport-error-indicator", "transport_error_indicator set")
	}
	if p.AFC == 0 {
		add("ts-afc-reserved", "adaptation_field_control '00' is reserved")
		return p, probs, nil
	}
	pos := 4
	if p.AFC&2 != 0 {
		p.HasAF = true
		l := int(b[4])
		p.AFLength = l
		if p.AFC == 3 && l > 182 {
			add("af-length", "adaptation_field_length %d > 182 with payload present", l)
			return p, probs, nil
		}
		if p.AFC == 2 && l != 183 {
			add("af-length", "adaptation_field_length %d, must be 183 when there is no payload", l)
			if l > 183 {
				return p, probs, nil
			}
		}
		end := 5 + l
		pos = end
		if l > 0 {
			f := b[5]
			p.Discontinuity = f&0x80 != 0
			p.RandomAccess = f&0x40 != 0
			p.ESPriority = f&0x20 != 0
			p.HasPCR = f&0x10 != 0
			p.HasOPCR = f&0x08 != 0
			p.SplicingPoint = f&0x04 != 0
			hasPriv := f&0x02 != 0
			p.HasAFExtension = f&0x01 != 0
			q := 6
			need := func(n int, what string) bool {
				if q+n > end {
					add("af-overflow", "%s does not fit in adaptation_field_length %d", what, l)
					return false
				}
				return true
			}
			ok := true
			if p.HasPCR {
				if ok = need(6, "PCR"); ok {
					p.PCRBase, p.PCRExt = parsePCR(b[q : q+6])
					if b[q+4]&0x7E != 0x7E {
						add("af-reserved-bits", "PCR reserved bits are not all ones (0x%02x)", b[q+4])
					}
					if p.PCRExt >= 300 {
						add("af-pcr-extension", "program_clock_reference_extension %d >= 300", p.PCRExt)
					}
					q += 6
				}
			}
			if ok && p.HasOPCR {
				if ok = need(6, "OPCR"); ok {
					q += 6
				}
			}
			if ok && p.SplicingPoint {
				if ok = need(1, "splice_countdown"); ok {
					q++
				}
			}
			if ok && hasPriv {
				if ok = need(1, "transport_private_data_length"); ok {
					n := int(b[q])
					q++
					if ok = need(n, "transport private data"); ok {
						p.PrivateData = append([]byte(nil), b[q:q+n]...)
						q += n
					}
				}
			}
			if ok && p.HasAFExtension {
				if ok = need(1, "adaptation_field_extension_length"); ok {
					n := int(b[q])
					q++
					if ok = need(n, "adaptation field extension"); ok {
						q += n
					}
				}
			}
			if ok {
				p.Stuffing = end - q
				for i := q; i < end; i++ {
					if b[i] != 0xFF {
						add("af-stuffing-not-ff", "stuffing byte %d of the adaptation field is 0x%02x", i-q, b[i])
						break
					}
				}
			}
		}
	}
	if p.AFC&1 != 0 {
		if pos >= PacketSize {
			add("ts-empty-payload", "payload flag set but no payload byte left")
			p.Payload = []byte{}
		} else {
			p.Payload = b[pos:]
		}
	}
	return p, probs, nil
}

func parsePCR(b []byte) (base uint64, ext uint16) {
	base = uint64(b[0])<<25 | uint64(b[1])<<17 | uint64(b[2])<<9 | uint64(b[3])<<1 | uint64(b[4]>>7)
	ext = uint16(b[4]&1)<<8 | uint16(b[5])
	return
}

// ---------------------------------------------------------------------------
// PES

// hasOptionalPESHeader: every stream_id except the ones listed in 2.4.3.7
// whose PES packet has no optional header.
func hasOptionalPESHeader(id uint8) bool {
	switch id {
	case 0xBC, // program_stream_map
		0xBE, // padding_stream
		0xBF, // private_stream_2
		0xF0, // ECM
		0xF1, // EMM
		0xFF, // program_stream_directory
		0xF2, // DSMCC
		0xF8: // H.222.1 type E
		return false
	}
	return true
}

// parseTimestamp decodes the 5-byte PTS/DTS field and checks the 4-bit prefix
// and the three marker bits.
func parseTimestamp(b []byte, wantPrefix uint8) (v uint64, bad string) {
	if b[0]>>4 != wantPrefix {
		bad = fmt.Sprintf("prefix %04b, want %04b", b[0]>>4, wantPrefix)
	}
	if b[0]&1 == 0 || b[2]&1 == 0 || b[4]&1 == 0 {
		if bad != "" {
			bad += "; "
		}
		bad += "marker bit is zero"
	}
	v = uint64(b[0]>>1&7)<<30 | uint64(b[1])<<22 | uint64(b[2]>>1)<<15 | uint64(b[3])<<7 | uint64(b[4]>>1)
	return
}

// ParsePES parses the bytes of one PES packet (starting at
// packet_start_code_prefix).  Problems are returned with Packet = -1.
func ParsePES(pid uint16, b []byte) (*PES, []Problem) {
	pes := &PES{PID: pid, Raw: len(b)}
	var probs []Problem
	add := func(kind, f string, a ...interface{}) {
		probs = append(probs, Problem{Kind: kind, PID: pid, Packet: -1, Msg: fmt.Sprintf(f, a...)})
	}
	if len(b) < 6 {
		add("pes-truncated", "PES packet of %d bytes has no complete start code / length", len(b))
		return nil, probs
	}
	if b[0] != 0 || b[1] != 0 || b[2] != 1 {
		add("pes-no-start-code", "payload unit starts with % x, want 00 00 01", b[:4])
		return nil, probs
	}
	pes.StreamID = b[3]
	pes.PacketLength = int(b[4])<<8 | int(b[5])
	if pes.PacketLength != 0 && 6+pes.PacketLength != len(b) {
		add("pes-length-mismatch", "PES_packet_length %d but %d bytes follow the length field", pes.PacketLength, len(b)-6)
	}
	if !hasOptionalPESHeader(pes.StreamID) {
		pes.Payload = b[6:]
		return pes, probs
	}
	pes.HasOptHeader = true
	if len(b) < 9 {
		add("pes-truncated", "PES packet of %d bytes has no complete optional header", len(b))
		return nil, probs
	}
	if b[6]>>6 != 2 {
		add("pes-marker", "first two bits after PES_packet_length are %02b, want 10", b[6]>>6)
	}
	pes.Scrambling = b[6] >> 4 & 3
	pes.PESPriority = b[6]&0x08 != 0
	pes.DataAlignment = b[6]&0x04 != 0
	pes.Copyright = b[6]&0x02 != 0
	pes.Original = b[6]&0x01 != 0
	flags := b[7]
	pes.PTSDTSFlags = flags >> 6
	pes.HeaderDataLength = int(b[8])
	hdrEnd := 9 + pes.HeaderDataLength
	if hdrEnd > len(b) {
		add("pes-truncated", "PES_header_data_length %d exceeds the %d bytes collected", pes.HeaderDataLength, len(b))
		return nil, probs
	}
	q := 9
	switch pes.PTSDTSFlags {
	case 1:
		add("pes-pts-dts-flags", "PTS_DTS_flags '01' is forbidden")
	case 2:
		if q+5 > hdrEnd {
			add("pes-header-overflow", "PTS does not fit in PES_header_data_length %d", pes.HeaderDataLength)
			return nil, probs
		}
		var bad string
		pes.PTS, bad = parseTimestamp(b[q:q+5], 2)
		pes.HasPTS = true
		if bad != "" {
			add("pes-timestamp-syntax", "PTS: %s", bad)
		}
		q += 5
	case 3:
		if q+10 > hdrEnd {
			add("pes-header-overflow", "PTS+DTS do not fit in PES_header_data_length %d", pes.HeaderDataLength)
			return nil, probs
		}
		var bad string
		pes.PTS, bad = parseTimestamp(b[q:q+5], 3)
		pes.HasPTS = true
		if bad != "" {
			add("pes-timestamp-syntax", "PTS: %s", bad)
		}
		pes.DTS, bad = parseTimestamp(b[q+5:q+10], 1)
		pes.HasDTS = true
		if bad != "" {
			add("pes-timestamp-syntax", "DTS: %s", bad)
		}
		q += 10
	}
	// remaining optional fields, by flag, only to account for their size
	if flags&0x20 != 0 { // ESCR
		q += 6
	}
	if flags&0x10 != 0 { // ES_rate
		q += 3
	}
	if flags&0x08 != 0 { // DSM trick mode
		q++
	}
	if flags&0x04 != 0 { // additional copy info
		q++
	}
	if flags&0x02 != 0 { // previous PES CRC
		q += 2
	}
	if flags&0x01 != 0 {
		// PES extension: variable; its own flags decide.  Everything up to hdrEnd
		// belongs to the header anyway.
		q = hdrEnd
	}
	if q > hdrEnd {
		add("pes-header-overflow", "optional fields need %d bytes, PES_header_data_length is %d", q-9, pes.HeaderDataLength)
		return nil, probs
	}
	pes.HeaderStuffing = hdrEnd - q
	for i := q; i < hdrEnd; i++ {
		if b[i] != 0xFF {
			add("pes-header-stuffing-not-ff", "PES header stuffing byte is 0x%02x", b[i])
			break
		}
	}
	if pes.HeaderStuffing > 32 {
		add("pes-header-stuffing-too-long", "%d stuffing bytes in the PES header (max 32)", pes.HeaderStuffing)
	}
	pes.Payload = b[hdrEnd:]
	return pes, probs
}

// ---------------------------------------------------------------------------
// PSI

// ParseSection parses one complete section (table_id .. last byte).
func ParseSection(pid uint16, packet int, raw []byte) (Section, []Problem) {
	var s Section
	var probs []Problem
	add := func(kind, f string, a ...interface{}) {
		probs = append(probs, Problem{Kind: kind, PID: pid, Packet: packet, Msg: fmt.Sprintf(f, a...)})
	}
	s.PID, s.Packet = pid, packet
	s.Raw = append([]byte(nil), raw...)
	s.TableID = raw[0]
	s.SSI = raw[1]&0x80 != 0
	s.PrivateBit = raw[1]&0x40 != 0
	s.SectionLength = int(raw[1]&0x0F)<<8 | int(raw[2])
	if raw[1]&0x30 != 0x30 {
		add("psi-reserved-bits", "reserved bits after section_syntax_indicator are %02b, want 11", raw[1]>>4&3)
	}
	if s.SectionLength > 1021 {
		add("psi-section-length", "section_length %d > 1021", s.SectionLength)
	}
	if !s.SSI {
		s.Data = s.Raw[3:]
		return s, probs
	}
	if s.SectionLength < 9 {
		add("psi-section-length", "section_length %d too short for the long section header and CRC", s.SectionLength)
		return s, probs
	}
	s.TableIDExt = uint16(raw[3])<<8 | uint16(raw[4])
	if raw[5]&0xC0 != 0xC0 {
		add("psi-reserved-bits", "reserved bits before version_number are %02b, want 11", raw[5]>>6)
	}
	s.Version = raw[5] >> 1 & 0x1F
	s.CurrentNext = raw[5]&1 != 0
	s.SectionNumber = raw[6]
	s.LastSection = raw[7]
	n := len(raw)
	s.Data = s.Raw[8 : n-4]
	s.CRC = uint32(raw[n-4])<<24 | uint32(raw[n-3])<<16 | uint32(raw[n-2])<<8 | uint32(raw[n-1])
	s.CRCResidue = CRC32(raw)
	if s.CRCResidue != 0 {
		add("psi-crc", "CRC_32 0x%08x does not match the section (computed 0x%08x)", s.CRC, CRC32(raw[:n-4]))
	}
	if s.SectionNumber > s.LastSection {
		add("psi-section-number", "section_number %d > last_section_number %d", s.SectionNumber, s.LastSection)
	}
	return s, probs
}

func parseDescriptors(b []byte) ([]Descriptor, bool) {
	var out []Descriptor
	for len(b) > 0 {
		if len(b) < 2 || 2+int(b[1]) > len(b) {
			return out, false
		}
		out = append(out, Descriptor{Tag: b[0], Data: append([]byte(nil), b[2:2+int(b[1])]...)})
		b = b[2+int(b[1]):]
	}
	return out, true
}

// ParsePAT interprets a section with table_id 0.
func ParsePAT(s Section) (PAT, []Problem) {
	var probs []Problem
	add := func(kind, f string, a ...interface{}) {
		probs = append(probs, Problem{Kind: kind, PID: s.PID, Packet: s.Packet, Msg: fmt.Sprintf(f, a...)})
	}
	pat := PAT{Packet: s.Packet, TransportStreamID: s.TableIDExt, Version: s.Version, Section: s}
	if !s.SSI {
		add("pat-syntax", "section_syntax_indicator is 0")
		return pat, probs
	}
	if s.PrivateBit {
		add("pat-syntax", "the '0' bit after section_syntax_indicator is 1")
	}
	if len(s.Data)%4 != 0 {
		add("pat-syntax", "program loop of %d bytes is not a multiple of 4", len(s.Data))
	}
	for i := 0; i+4 <= len(s.Data); i += 4 {
		d := s.Data[i:]
		if d[2]&0xE0 != 0xE0 {
			add("psi-reserved-bits", "PAT entry %d: reserved bits %03b, want 111", i/4, d[2]>>5)
		}
		pat.Entries = append(pat.Entries, PATEntry{ProgramNumber: uint16(d[0])<<8 | uint16(d[1]), PID: uint16(d[2]&0x1F)<<8 | uint16(d[3])})
	}
	return pat, probs
}

// ParsePMT interprets a section with table_id 2.
func ParsePMT(s Section) (PMT, []Problem) {
	var probs []Problem
	add := func(kind, f string, a ...interface{}) {
		probs = append(probs, Problem{Kind: kind, PID: s.PID, Packet: s.Packet, Msg: fmt.Sprintf(f, a...)})
	}
	pmt := PMT{Packet: s.Packet, PID: s.PID, ProgramNumber: s.TableIDExt, Version: s.Version, Section: s}
	if !s.SSI {
		add("pmt-syntax", "section_syntax_indicator is 0")
		return pmt, probs
	}
	if s.PrivateBit {
		add("pmt-syntax", "the '0' bit after section_syntax_indicator is 1")
	}
	if s.SectionNumber != 0 || s.LastSection != 0 {
		add("pmt-syntax", "section_number/last_section_number %d/%d, must be 0 for a program map section", s.SectionNumber, s.LastSection)
	}
	d := s.Data
	if len(d) < 4 {
		add("pmt-syntax", "program map section body of %d bytes is too short", len(d))
		return pmt, probs
	}
	if d[0]&0xE0 != 0xE0 {
		add("psi-reserved-bits", "reserved bits before PCR_PID are %03b, want 111", d[0]>>5)
	}
	pmt.PCRPID = uint16(d[0]&0x1F)<<8 | uint16(d[1])
	if d[2]&0xF0 != 0xF0 {
		add("psi-reserved-bits", "reserved bits before program_info_length are %04b, want 1111", d[2]>>4)
	}
	pil := int(d[2]&0x0F)<<8 | int(d[3])
	if pil&0xC00 != 0 {
		add("pmt-syntax", "first two bits of program_info_length are not 00")
	}
	if 4+pil > len(d) {
		add("pmt-syntax", "program_info_length %d exceeds the section", pil)
		return pmt, probs
	}
	var ok bool
	pmt.ProgramInfo, ok = parseDescriptors(d[4 : 4+pil])
	if !ok {
		add("pmt-descriptor", "program descriptors do not tile program_info_length %d", pil)
	}
	d = d[4+pil:]
	for len(d) > 0 {
		if len(d) < 5 {
			add("pmt-syntax", "%d stray bytes at the end of the elementary stream loop", len(d))
			break
		}
		if d[1]&0xE0 != 0xE0 {
			add("psi-reserved-bits", "reserved bits before elementary_PID are %03b, want 111", d[1]>>5)
		}
		if d[3]&0xF0 != 0xF0 {
			add("psi-reserved-bits", "reserved bits before ES_info_length are %04b, want 1111", d[3]>>4)
		}
		es := ES{StreamType: d[0], PID: uint16(d[1]&0x1F)<<8 | uint16(d[2])}
		eil := int(d[3]&0x0F)<<8 | int(d[4])
		if eil&0xC00 != 0 {
			add("pmt-syntax", "first two bits of ES_info_length are not 00")
		}
		if 5+eil > len(d) {
			add("pmt-syntax", "ES_info_length %d exceeds the section", eil)
			break
		}
		es.Descriptors, ok = parseDescriptors(d[5 : 5+eil])
		if !ok {
			add("pmt-descriptor", "descriptors of PID 0x%x do not tile ES_info_length %d", es.PID, eil)
		}
		pmt.Streams = append(pmt.Streams, es)
		d = d[5+eil:]
	}
	return pmt, probs
}

// ---------------------------------------------------------------------------
// demultiplexer

type pidState struct {
	seen    bool
	lastCC  uint8
	lastDup bool // the previous packet was already a duplicate
	lastRaw []byte

	// PES assembly
	inPES    bool
	buf      []byte
	first    Packet
	last     int
	npackets int

	// PSI assembly
	secBuf    []byte
	secPacket int
	secActive bool
}

type demux struct {
	res    *Result
	pids   map[uint16]*pidState
	pmtPID map[uint16]bool
}

func (d *demux) problem(kind string, pid uint16, packet int, f string, a ...interface{}) {
	d.res.Problems = append(d.res.Problems, Problem{Kind: kind, PID: pid, Packet: packet, Msg: fmt.Sprintf(f, a...)})
}

// Demux cuts data into transport packets and reassembles PSI and PES.
func Demux(data []byte, opt Options) (*Result, error) {
	res := &Result{Orphans: map[uint16]int{}, PacketsPerPID: map[uint16]int{}}
	d := &demux{res: res, pids: map[uint16]*pidState{}, pmtPID: map[uint16]bool{}}
	n := len(data) / PacketSize
	if len(data)%PacketSize != 0 && !opt.AllowPartialTail {
		return res, fmt.Errorf("length %d is not a multiple of 188", len(data))
	}
	for i := 0; i < n; i++ {
		raw := data[i*PacketSize : (i+1)*PacketSize]
		p, probs, err := ParsePacket(raw, i)
		if err != nil {
			return res, err
		}
		res.Problems = append(res.Problems, probs...)
		res.Packets = append(res.Packets, p)
		res.PacketsPerPID[p.PID]++
		d.feed(p, raw)
	}
	d.flush()
	sort.SliceStable(res.PES, func(i, j int) bool { return res.PES[i].FirstPacket < res.PES[j].FirstPacket })
	return res, nil
}

func (d *demux) state(pid uint16) *pidState {
	st := d.pids[pid]
	if st == nil {
		st = &pidState{}
		d.pids[pid] = st
	}
	return st
}

func (d *demux) feed(p Packet, raw []byte) {
	if p.PID == PIDNull {
		return
	}
	st := d.state(p.PID)
	// continuity_counter (2.4.3.3): increments with each packet of the PID that
	// carries payload; does not increment without payload; a packet may be sent
	// twice (a duplicate: same counter, payload present, bytes identical except
	// PCR), and only twice; discontinuity_indicator excuses a jump.
	hasPayload := p.AFC&1 != 0
	if st.seen && p.AFC != 0 {
		switch {
		case !hasPayload:
			if p.CC != st.lastCC {
				d.res.CC = append(d.res.CC, CCEvent{PID: p.PID, Packet: p.Index, Expected: st.lastCC, Got: p.CC, Kind: "changed-without-payload"})
			}
		case p.CC == (st.lastCC+1)&0x0F:
			st.lastDup = false
		case p.CC == st.lastCC && !st.lastDup && !p.Discontinuity && sameExceptPCR(raw, st.lastRaw, p):
			d.res.CC = append(d.res.CC, CCEvent{PID: p.PID, Packet: p.Index, Expected: (st.lastCC + 1) & 0x0F, Got: p.CC, Kind: "duplicate"})
			st.lastDup = true
			// a duplicate's payload is not delivered twice
			return
		default:
			if !p.Discontinuity {
				d.res.CC = append(d.res.CC, CCEvent{PID: p.PID, Packet: p.Index, Expected: (st.lastCC + 1) & 0x0F, Got: p.CC, Kind: "jump"})
			}
			st.lastDup = false
		}
	}
	if hasPayload || !st.seen {
		st.lastCC = p.CC
	}
	st.seen = true
	st.lastRaw = raw

	if p.Scrambling != 0 {
		d.problem("ts-scrambled", p.PID, p.Index, "transport_scrambling_control %d", p.Scrambling)
		return
	}
	switch {
	case p.PID == PIDPAT || d.pmtPID[p.PID]:
		d.feedPSI(st, p)
	case p.PID == PIDCAT || p.PID < 0x10:
		// CAT / reserved PIDs: not interpreted
	default:
		d.feedPES(st, p)
	}
}

// sameExceptPCR: a duplicate packet repeats its original byte for byte except
// that a PCR, if present, may carry a new value.
func sameExceptPCR(a, b []byte, p Packet) bool {
	if len(a) != PacketSize || len(b) != PacketSize {
		return false
	}
	for i := 0; i < PacketSize; i++ {
		if a[i] != b[i] {
			if p.HasPCR && i >= 6 && i < 12 {
				continue
			}
			return false
		}
	}
	return true
}

func (d *demux) feedPES(st *pidState, p Packet) {
	if p.PUSI {
		if !hasPayloadBytes(p) {
			d.problem("ts-pusi-without-payload", p.PID, p.Index, "payload_unit_start_indicator set on a packet without payload")
			return
		}
		d.finishPES(st)
		st.inPES = true
		st.buf = append(st.buf[:0:0], p.Payload...)
		st.first = p
		st.last = p.Index
		st.npackets = 1
		return
	}
	if !st.inPES {
		d.res.Orphans[p.PID] += len(p.Payload)
		return
	}
	st.npackets++
	st.last = p.Index
	st.buf = append(st.buf, p.Payload...)
}

func hasPayloadBytes(p Packet) bool { return p.AFC&1 != 0 && len(p.Payload) > 0 }

func (d *demux) finishPES(st *pidState) {
	if !st.inPES {
		return
	}
	st.inPES = false
	pes, probs := ParsePES(st.first.PID, st.buf)
	for _, pr := range probs {
		pr.Packet = st.first.Index
		d.res.Problems = append(d.res.Problems, pr)
	}
	if pes == nil {
		return
	}
	pes.FirstPacket = st.first.Index
	pes.LastPacket = st.last
	pes.NumPackets = st.npackets
	pes.RandomAccess = st.first.RandomAccess
	pes.HasPCR = st.first.HasPCR
	pes.PCRBase, pes.PCRExt = st.first.PCRBase, st.first.PCRExt
	d.res.PES = append(d.res.PES, pes)
	st.buf = nil
}

func (d *demux) feedPSI(st *pidState, p Packet) {
	if p.AFC&1 == 0 {
		return
	}
	pl := p.Payload
	if p.PUSI {
		if len(pl) < 1 {
			d.problem("psi-pointer", p.PID, p.Index, "no pointer_field")
			return
		}
		ptr := int(pl[0])
		if 1+ptr > len(pl) {
			d.problem("psi-pointer", p.PID, p.Index, "pointer_field %d points outside the packet", ptr)
			return
		}
		// bytes before the pointer target finish the section in progress
		if st.secActive {
			st.secBuf = append(st.secBuf, pl[1:1+ptr]...)
			d.drainSections(st, p, true)
		} else if ptr != 0 {
			for _, c := range pl[1 : 1+ptr] {
				if c != 0xFF {
					d.problem("psi-pointer", p.PID, p.Index, "pointer_field %d skips non-stuffing bytes with no section in progress", ptr)
					break
				}
			}
		}
		st.secBuf = append(st.secBuf[:0:0], pl[1+ptr:]...)
		st.secActive = true
		st.secPacket = p.Index
		d.drainSections(st, p, false)
		return
	}
	if !st.secActive {
		d.res.Orphans[p.PID] += len(pl)
		return
	}
	st.secBuf = append(st.secBuf, pl...)
	d.drainSections(st, p, false)
}

// drainSections consumes every complete section at the head of st.secBuf.
// mustFinish: the buffer holds the tail before a pointer target and must end
// exactly at a section boundary.
func (d *demux) drainSections(st *pidState, p Packet, mustFinish bool) {
	for {
		b := st.secBuf
		if len(b) == 0 {
			st.secActive = false
			return
		}
		if b[0] == 0xFF {
			// table_id 0xFF is forbidden: the rest of the payload is stuffing
			for _, c := range b {
				if c != 0xFF {
					d.problem("psi-stuffing-not-ff", p.PID, p.Index, "byte 0x%02x after the last section is not stuffing", c)
					break
				}
			}
			st.secBuf = nil
			st.secActive = false
			return
		}
		if len(b) < 3 {
			if mustFinish {
				d.problem("psi-section-truncated", p.PID, p.Index, "section cut by the next pointer_field")
				st.secBuf, st.secActive = nil, false
			}
			return
		}
		total := 3 + (int(b[1]&0x0F)<<8 | int(b[2]))
		if len(b) < total {
			if mustFinish {
				d.problem("psi-section-truncated", p.PID, p.Index, "section of %d bytes cut after %d by the next pointer_field", total, len(b))
				st.secBuf, st.secActive = nil, false
			}
			return
		}
		d.section(p.PID, st.secPacket, b[:total])
		st.secBuf = b[total:]
		st.secPacket = p.Index
	}
}

func (d *demux) section(pid uint16, packet int, raw []byte) {
	s, probs := ParseSection(pid, packet, raw)
	d.res.Problems = append(d.res.Problems, probs...)
	d.res.Sections = append(d.res.Sections, s)
	switch {
	case pid == PIDPAT:
		if s.TableID != TableIDPAT {
			d.problem("pat-syntax", pid, packet, "table_id 0x%02x on PID 0, want 0x00", s.TableID)
			return
		}
		if s.CRCResidue != 0 {
			return // a section failing its CRC is discarded by a decoder
		}
		pat, pp := ParsePAT(s)
		d.res.Problems = append(d.res.Problems, pp...)
		d.res.PATs = append(d.res.PATs, pat)
		if s.CurrentNext {
			for _, e := range pat.Entries {
				if e.ProgramNumber != 0 {
					d.pmtPID[e.PID] = true
				}
			}
		}
	case d.pmtPID[pid]:
		if s.TableID != TableIDPMT {
			return // other private sections may share the PID
		}
		if s.CRCResidue != 0 {
			return
		}
		pmt, pp := ParsePMT(s)
		d.res.Problems = append(d.res.Problems, pp...)
		d.res.PMTs = append(d.res.PMTs, pmt)
	}
}

func (d *demux) flush() {
	pids := make([]int, 0, len(d.pids))
	for pid := range d.pids {
		pids = append(pids, int(pid))
	}
	sort.Ints(pids)
	for _, pid := range pids {
		st := d.pids[uint16(pid)]
		d.finishPES(st)
		if st.secActive && len(st.secBuf) > 0 && st.secBuf[0] != 0xFF {
			d.problem("psi-section-truncated", uint16(pid), -1, "input ends inside a section (%d bytes collected)", len(st.secBuf))
		}
	}
}

// TimestampDiff returns (a - b) mod 2^33 interpreted as a signed distance in
// (-2^32, 2^32].
func TimestampDiff(a, b uint64) int64 {
	d := (a - b) & (tsMod - 1)
	if d > tsMod/2 {
		return int64(d) - int64(tsMod)
	}
	return int64(d)
}
