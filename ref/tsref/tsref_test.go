package tsref

import (
	"bytes"
	"testing"
)

// Self-test of the reference demultiplexer against a tiny hand-written
// multiplexer (below) that uses features lal's packer never produces:
// sections spanning packets, pointer_field != 0, adaptation-field-only
// packets, duplicate packets, unbounded PES packets.

func TestCRC32KnownVector(t *testing.T) {
	// CRC-32/MPEG-2 check value
	if got := CRC32([]byte("123456789")); got != 0x0376E6E7 {
		t.Fatalf("CRC32 = %08x, want 0376e6e7", got)
	}
}

func tsPacket(pid uint16, pusi bool, cc uint8, af []byte, payload []byte) []byte {
	// af == nil: no adaptation field; af = body after the length byte
	b := make([]byte, 0, 188)
	b = append(b, 0x47, byte(pid>>8)&0x1F, byte(pid))
	if pusi {
		b[1] |= 0x40
	}
	afc := byte(0)
	if af != nil {
		afc |= 2
	}
	if payload != nil {
		afc |= 1
	}
	b = append(b, afc<<4|cc&0x0F)
	if af != nil {
		b = append(b, byte(len(af)))
		b = append(b, af...)
	}
	b = append(b, payload...)
	if len(b) != 188 {
		panic("test muxer produced a packet of wrong size")
	}
	return b
}

// padAF returns an adaptation field body (flags + stuffing) of n bytes, n >= 0
// (n == 0: only the length byte).
func padAF(n int, flags byte, extra []byte) []byte {
	if n == 0 {
		return []byte{}
	}
	af := []byte{flags}
	af = append(af, extra...)
	for len(af) < n {
		af = append(af, 0xFF)
	}
	return af
}

func section(tableID uint8, ext uint16, body []byte) []byte {
	n := 5 + len(body) + 4
	s := []byte{tableID, 0xB0 | byte(n>>8), byte(n), byte(ext >> 8), byte(ext), 0xC1, 0, 0}
	s = append(s, body...)
	c := CRC32(s)
	return append(s, byte(c>>24), byte(c>>16), byte(c>>8), byte(c))
}

func stamp(prefix uint8, v uint64) []byte {
	return []byte{prefix<<4 | byte(v>>30&7)<<1 | 1, byte(v >> 22), byte(v>>15&0x7F)<<1 | 1, byte(v >> 7), byte(v&0x7F)<<1 | 1}
}

func pesBytes(sid uint8, pts, dts uint64, hasDts bool, unbounded bool, payload []byte) []byte {
	hdr := stamp(2, pts)
	flags := byte(0x80)
	if hasDts {
		hdr = append(stamp(3, pts), stamp(1, dts)...)
		flags = 0xC0
	}
	n := 3 + len(hdr) + len(payload)
	if unbounded {
		n = 0
	}
	b := []byte{0, 0, 1, sid, byte(n >> 8), byte(n), 0x80, flags, byte(len(hdr))}
	b = append(b, hdr...)
	return append(b, payload...)
}

// packetise splits a PES packet over transport packets, stuffing the last one.
func packetise(pid uint16, cc *uint8, pes []byte, firstAF []byte) [][]byte {
	var out [][]byte
	first := true
	for len(pes) > 0 {
		var af []byte
		room := 184
		if first && firstAF != nil {
			af = firstAF
			room -= 1 + len(af)
		}
		if len(pes) < room {
			need := room - len(pes) // bytes of adaptation field incl. length byte
			if af != nil {
				af = append(append([]byte(nil), af...), bytes.Repeat([]byte{0xFF}, need)...)
			} else {
				af = padAF(need-1, 0, nil)
			}
			room = len(pes)
		}
		*cc = (*cc + 1) & 0x0F
		out = append(out, tsPacket(pid, first, *cc, af, pes[:room]))
		pes = pes[room:]
		first = false
	}
	return out
}

func seq(n int, seed byte) []byte {
	b := make([]byte, n)
	for i := range b {
		b[i] = byte(i)*7 + seed
	}
	return b
}

func TestDemuxHandBuiltStream(t *testing.T) {
	const pmtPID, vPID, aPID = 0x0FF0, 0x0200, 0x0201
	pat := section(TableIDPAT, 0x1234, []byte{0, 0, 0xE0, 0x10 /* network PID */, 0, 5, 0xE0 | pmtPID>>8, pmtPID & 0xFF})
	// a long PMT (many descriptors) so that the section spans two packets
	longDesc := append([]byte{0x05, 4}, []byte("Opus")...)
	for i := 0; i < 40; i++ {
		longDesc = append(longDesc, 0x7f, 4, 0x80, 1, 2, 3)
	}
	pmtBody := []byte{0xE0 | vPID>>8, vPID & 0xFF, 0xF0, 0}
	pmtBody = append(pmtBody, StreamTypeH265, 0xE0|vPID>>8, vPID&0xFF, 0xF0, 0)
	pmtBody = append(pmtBody, StreamTypePrivate, 0xE0|aPID>>8, aPID&0xFF, 0xF0|byte(len(longDesc)>>8), byte(len(longDesc)))
	pmtBody = append(pmtBody, longDesc...)
	pmt := section(TableIDPMT, 5, pmtBody)
	if len(pmt) <= 183 {
		t.Fatalf("test PMT too short to span packets: %d", len(pmt))
	}

	var wire []byte
	// PAT with pointer_field 3 (three stuffing bytes skipped), then stuffing
	pl := append([]byte{3, 0xFF, 0xFF, 0xFF}, pat...)
	pl = append(pl, bytes.Repeat([]byte{0xFF}, 184-len(pl))...)
	wire = append(wire, tsPacket(PIDPAT, true, 7, nil, pl)...)
	// PMT over two packets, second one carries the tail followed by a second PAT-less stuffing
	p1 := append([]byte{0}, pmt[:183]...)
	wire = append(wire, tsPacket(pmtPID, true, 0, nil, p1)...)
	p2 := append([]byte(nil), pmt[183:]...)
	p2 = append(p2, bytes.Repeat([]byte{0xFF}, 184-len(p2))...)
	wire = append(wire, tsPacket(pmtPID, false, 1, nil, p2)...)

	vcc, acc := uint8(3), uint8(15)
	v1 := seq(1000, 1)
	a1 := seq(10, 2)
	v2 := seq(70000, 3)
	pcrAF := []byte{0x50, 0x00, 0x00, 0x01, 0x00, 0xFE, 0x2B} // RAI + PCR base 0x200+1 -> 513, ext 0x12B=299... see below
	pkts := packetise(vPID, &vcc, pesBytes(0xE0, 1<<32+5, 1<<32-85, true, false, v1), pcrAF)
	for _, p := range pkts {
		wire = append(wire, p...)
	}
	// a duplicate of the last video packet (allowed once)
	wire = append(wire, pkts[len(pkts)-1]...)
	for _, p := range packetise(aPID, &acc, pesBytes(0xC0, 1<<33-1, 0, false, false, a1), nil) {
		wire = append(wire, p...)
	}
	// adaptation-field-only packet on the video PID: counter must not advance
	wire = append(wire, tsPacket(vPID, false, vcc, padAF(183, 0, nil), nil)...)
	for _, p := range packetise(vPID, &vcc, pesBytes(0xE0, 12345, 0, false, true, v2), nil) {
		wire = append(wire, p...)
	}
	// null packet
	wire = append(wire, tsPacket(PIDNull, false, 0, nil, bytes.Repeat([]byte{0xFF}, 184))...)

	res, err := Demux(wire, Options{})
	if err != nil {
		t.Fatal(err)
	}
	if len(res.Problems) != 0 {
		t.Fatalf("problems on a conforming stream: %v", res.Problems)
	}
	if len(res.CC) != 1 || res.CC[0].Kind != "duplicate" || res.CC[0].PID != vPID {
		t.Fatalf("continuity events: %+v, want exactly one duplicate on the video PID", res.CC)
	}
	if len(res.PATs) != 1 || len(res.PATs[0].Entries) != 2 || res.PATs[0].Entries[1] != (PATEntry{5, pmtPID}) || res.PATs[0].TransportStreamID != 0x1234 {
		t.Fatalf("PAT: %+v", res.PATs)
	}
	if len(res.PMTs) != 1 {
		t.Fatalf("PMTs: %d (sections %d)", len(res.PMTs), len(res.Sections))
	}
	m := res.PMTs[0]
	if m.ProgramNumber != 5 || m.PCRPID != vPID || len(m.Streams) != 2 || m.Streams[0].StreamType != StreamTypeH265 || m.Streams[1].Registration() != "Opus" || len(m.Streams[1].Descriptors) != 41 {
		t.Fatalf("PMT: %+v", m)
	}
	if st, ok := res.StreamType(aPID); !ok || st != StreamTypePrivate {
		t.Fatalf("StreamType(audio) = %x %v", st, ok)
	}
	if len(res.PES) != 3 {
		t.Fatalf("PES count %d", len(res.PES))
	}
	p := res.PES[0]
	if p.PID != vPID || p.StreamID != 0xE0 || !p.HasDTS || p.PTS != 1<<32+5 || p.DTS != 1<<32-85 || !bytes.Equal(p.Payload, v1) || !p.RandomAccess || !p.HasPCR {
		t.Fatalf("video PES 1 wrong: pts=%d dts=%d len=%d ra=%v pcr=%v", p.PTS, p.DTS, len(p.Payload), p.RandomAccess, p.HasPCR)
	}
	if p.PCRBase != 0x00000100<<1|1 || p.PCRExt != 0x02B&0x1FF {
		// bytes 00 00 01 00 | FE 2B : base = 0x00000100<<1 | 1 (top bit of 0xFE), ext = (0xFE&1)<<8 | 0x2B
		t.Fatalf("PCR base=%d ext=%d", p.PCRBase, p.PCRExt)
	}
	p = res.PES[1]
	if p.PID != aPID || p.HasDTS || p.PTS != 1<<33-1 || !bytes.Equal(p.Payload, a1) || p.RandomAccess {
		t.Fatalf("audio PES wrong: %+v", p)
	}
	p = res.PES[2]
	if p.PacketLength != 0 || !bytes.Equal(p.Payload, v2) || p.PTS != 12345 {
		t.Fatalf("unbounded video PES wrong: len=%d pts=%d", len(p.Payload), p.PTS)
	}
	if got := res.ByPID(vPID); len(got) != 2 {
		t.Fatalf("ByPID(video) = %d", len(got))
	}
}

func TestDemuxReportsDefects(t *testing.T) {
	cc := uint8(0)
	good := packetise(0x100, &cc, pesBytes(0xE0, 90000, 0, false, false, seq(400, 9)), nil)
	join := func(p [][]byte) []byte { return bytes.Join(p, nil) }
	kinds := func(b []byte) []string {
		r, err := Demux(b, Options{})
		if err != nil {
			return []string{"ERR:" + err.Error()}
		}
		k := r.ProblemKinds()
		for _, e := range r.CC {
			k = append(k, "cc:"+e.Kind)
		}
		return k
	}
	if k := kinds(join(good)); len(k) != 0 {
		t.Fatalf("good stream flagged: %v", k)
	}
	// skipped packet -> counter jump + PES length mismatch
	if k := kinds(join([][]byte{good[0], good[2]})); len(k) != 2 {
		t.Fatalf("dropped packet: %v", k)
	}
	// corrupted adaptation_field_length
	bad := append([]byte(nil), join(good)...)
	last := len(bad) - 188
	bad[last+4]++ // adaptation field one byte longer than the stuffing
	if k := kinds(bad); len(k) == 0 {
		t.Fatalf("longer adaptation field not flagged")
	}
	// PES start code destroyed
	bad = append([]byte(nil), join(good)...)
	bad[6] = 0
	if k := kinds(bad); len(k) != 1 || k[0] != "pes-no-start-code" {
		t.Fatalf("start code: %v", k)
	}
	// marker bit
	bad = append([]byte(nil), join(good)...)
	bad[4+9] &^= 1
	if k := kinds(bad); len(k) != 1 || k[0] != "pes-timestamp-syntax" {
		t.Fatalf("marker: %v", k)
	}
	// sync byte
	bad = append([]byte(nil), join(good)...)
	bad[188] = 0x48
	if k := kinds(bad); len(k) != 1 || k[0][:4] != "ERR:" {
		t.Fatalf("sync: %v", k)
	}
	// CRC
	sec := section(TableIDPAT, 1, []byte{0, 1, 0xF0, 0x01})
	sec[len(sec)-1] ^= 1
	pl := append([]byte{0}, sec...)
	pl = append(pl, bytes.Repeat([]byte{0xFF}, 184-len(pl))...)
	r, _ := Demux(tsPacket(0, true, 0, nil, pl), Options{})
	if len(r.PATs) != 0 || len(r.Problems) != 1 || r.Problems[0].Kind != "psi-crc" {
		t.Fatalf("bad CRC: pats=%d problems=%v", len(r.PATs), r.Problems)
	}
}
