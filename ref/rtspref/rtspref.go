// Package rtspref is a small RTSP 1.0 (RFC 2326) client for interleaved
// (RTP over the RTSP connection) publishing and playing, written for the
// harness.  It never imports lal.
package rtspref

import (
	"bufio"
	"crypto/md5"
	"encoding/base64"
	"encoding/hex"
	"fmt"
	"io"
	"strconv"
	"strings"
)

// Response is one RTSP response.
type Response struct {
	Status  int
	Reason  string
	Headers map[string]string // canonical lower-case keys
	Body    []byte
}

// Frame is one interleaved binary frame ('$' channel length payload).
type Frame struct {
	Channel int
	Payload []byte
}

// Client speaks RTSP over rw.
type Client struct {
	rw   io.ReadWriter
	r    *bufio.Reader
	cseq int
	// Frames received while waiting for responses.
	Pending []Frame
	Session string
	// Authorization header added to every request when non-empty.
	Authorization string
	UserAgent     string
}

func NewClient(rw io.ReadWriter) *Client {
	return &Client{rw: rw, r: bufio.NewReaderSize(rw, 64*1024), UserAgent: "verif-rtspref"}
}

// WriteRequest sends a request and returns the CSeq used.
func (c *Client) WriteRequest(method, uri string, headers map[string]string, body []byte) (int, error) {
	c.cseq++
	var b strings.Builder
	fmt.Fprintf(&b, "%s %s RTSP/1.0\r\nCSeq: %d\r\n", method, uri, c.cseq)
	if c.UserAgent != "" {
		fmt.Fprintf(&b, "User-Agent: %s\r\n", c.UserAgent)
	}
	if c.Session != "" {
		fmt.Fprintf(&b, "Session: %s\r\n", c.Session)
	}
	if c.Authorization != "" {
		fmt.Fprintf(&b, "Authorization: %s\r\n", c.Authorization)
	}
	for k, v := range headers {
		fmt.Fprintf(&b, "%s: %s\r\n", k, v)
	}
	if len(body) > 0 {
		fmt.Fprintf(&b, "Content-Length: %d\r\n", len(body))
	}
	b.WriteString("\r\n")
	out := append([]byte(b.String()), body...)
	_, err := c.rw.Write(out)
	return c.cseq, err
}

// next reads the next unit from the connection: an interleaved frame or a response.
func (c *Client) next() (*Frame, *Response, error) {
	first, err := c.r.Peek(1)
	if err != nil {
		return nil, nil, err
	}
	if first[0] == '$' {
		var h [4]byte
		if _, err := io.ReadFull(c.r, h[:]); err != nil {
			return nil, nil, unexpected(err)
		}
		n := int(h[2])<<8 | int(h[3])
		p := make([]byte, n)
		if _, err := io.ReadFull(c.r, p); err != nil {
			return nil, nil, unexpected(err)
		}
		return &Frame{Channel: int(h[1]), Payload: p}, nil, nil
	}
	line, err := c.r.ReadString('\n')
	if err != nil {
		return nil, nil, unexpected(err)
	}
	line = strings.TrimRight(line, "\r\n")
	parts := strings.SplitN(line, " ", 3)
	if len(parts) < 2 || !strings.HasPrefix(parts[0], "RTSP/") {
		return nil, nil, fmt.Errorf("rtspref: bad status line %q", line)
	}
	st, err := strconv.Atoi(parts[1])
	if err != nil {
		return nil, nil, fmt.Errorf("rtspref: bad status code in %q", line)
	}
	resp := &Response{Status: st, Headers: map[string]string{}}
	if len(parts) == 3 {
		resp.Reason = parts[2]
	}
	for {
		l, err := c.r.ReadString('\n')
		if err != nil {
			return nil, nil, unexpected(err)
		}
		l = strings.TrimRight(l, "\r\n")
		if l == "" {
			break
		}
		i := strings.IndexByte(l, ':')
		if i < 0 {
			return nil, nil, fmt.Errorf("rtspref: bad header line %q", l)
		}
		resp.Headers[strings.ToLower(strings.TrimSpace(l[:i]))] = strings.TrimSpace(l[i+1:])
	}
	if cl := resp.Headers["content-length"]; cl != "" {
		n, err := strconv.Atoi(cl)
		if err != nil || n < 0 {
			return nil, nil, fmt.Errorf("rtspref: bad content-length %q", cl)
		}
		resp.Body = make([]byte, n)
		if _, err := io.ReadFull(c.r, resp.Body); err != nil {
			return nil, nil, unexpected(err)
		}
	}
	return nil, resp, nil
}

func unexpected(err error) error {
	if err == io.EOF {
		return io.ErrUnexpectedEOF
	}
	return err
}

// ReadResponse returns the next response, queueing interleaved frames that arrive before it.
func (c *Client) ReadResponse() (*Response, error) {
	for {
		f, r, err := c.next()
		if err != nil {
			return nil, err
		}
		if f != nil {
			c.Pending = append(c.Pending, *f)
			continue
		}
		if s := r.Headers["session"]; s != "" && c.Session == "" {
			if i := strings.IndexByte(s, ';'); i >= 0 {
				s = s[:i]
			}
			c.Session = s
		}
		return r, nil
	}
}

// Do sends a request and waits for its response.
func (c *Client) Do(method, uri string, headers map[string]string, body []byte) (*Response, error) {
	if _, err := c.WriteRequest(method, uri, headers, body); err != nil {
		return nil, err
	}
	return c.ReadResponse()
}

// ReadFrame returns the next interleaved frame (queued ones first); responses
// arriving in between are skipped.
func (c *Client) ReadFrame() (Frame, error) {
	if len(c.Pending) > 0 {
		f := c.Pending[0]
		c.Pending = c.Pending[1:]
		return f, nil
	}
	for {
		f, _, err := c.next()
		if err != nil {
			return Frame{}, err
		}
		if f != nil {
			return *f, nil
		}
	}
}

// WriteFrame sends one interleaved frame.
func (c *Client) WriteFrame(channel int, payload []byte) error {
	b := make([]byte, 4+len(payload))
	b[0] = '$'
	b[1] = byte(channel)
	b[2] = byte(len(payload) >> 8)
	b[3] = byte(len(payload))
	copy(b[4:], payload)
	_, err := c.rw.Write(b)
	return err
}

// ---------------------------------------------------------------------------
// SDP building (RFC 4566 + RFC 6184 / 7798 / 3640 fmtp)

// Track describes one media section.
type Track struct {
	Media     string // "video" | "audio"
	PT        int
	Encoding  string // H264 | H265 | MPEG4-GENERIC | PCMA | PCMU | opus
	ClockRate int
	Channels  int    // audio
	Fmtp      string // without the "a=fmtp:<pt> " prefix ("" = none)
	Control   string // e.g. "streamid=0"
}

// H264Fmtp builds the fmtp parameters for H.264.
func H264Fmtp(sps, pps []byte) string {
	return fmt.Sprintf("packetization-mode=1; sprop-parameter-sets=%s,%s; profile-level-id=%02X%02X%02X",
		base64.StdEncoding.EncodeToString(sps), base64.StdEncoding.EncodeToString(pps), sps[1], sps[2], sps[3])
}

// H265Fmtp builds the fmtp parameters for H.265.
func H265Fmtp(vps, sps, pps []byte) string {
	return fmt.Sprintf("sprop-vps=%s; sprop-sps=%s; sprop-pps=%s",
		base64.StdEncoding.EncodeToString(vps), base64.StdEncoding.EncodeToString(sps), base64.StdEncoding.EncodeToString(pps))
}

// AacFmtp builds the fmtp parameters for AAC-hbr.
func AacFmtp(asc []byte) string {
	return fmt.Sprintf("profile-level-id=1;mode=AAC-hbr;sizelength=13;indexlength=3;indexdeltalength=3; config=%s", strings.ToUpper(hex.EncodeToString(asc)))
}

// BuildSdp renders a session description.
func BuildSdp(tracks []Track) []byte {
	var b strings.Builder
	b.WriteString("v=0\r\no=- 0 0 IN IP4 127.0.0.1\r\ns=verif\r\nc=IN IP4 127.0.0.1\r\nt=0 0\r\na=tool:verif-rtspref\r\n")
	for _, t := range tracks {
		fmt.Fprintf(&b, "m=%s 0 RTP/AVP %d\r\n", t.Media, t.PT)
		if t.Channels > 0 {
			fmt.Fprintf(&b, "a=rtpmap:%d %s/%d/%d\r\n", t.PT, t.Encoding, t.ClockRate, t.Channels)
		} else {
			fmt.Fprintf(&b, "a=rtpmap:%d %s/%d\r\n", t.PT, t.Encoding, t.ClockRate)
		}
		if t.Fmtp != "" {
			fmt.Fprintf(&b, "a=fmtp:%d %s\r\n", t.PT, t.Fmtp)
		}
		fmt.Fprintf(&b, "a=control:%s\r\n", t.Control)
	}
	return []byte(b.String())
}

// ---------------------------------------------------------------------------
// flows

// Publish performs OPTIONS, ANNOUNCE, SETUP (interleaved, channels 2i / 2i+1)
// and RECORD.  It returns the first non-200 response (and an error) if any step
// is refused.
func (c *Client) Publish(uri string, tracks []Track) (*Response, error) {
	steps := []func() (*Response, error){
		func() (*Response, error) { return c.Do("OPTIONS", uri, nil, nil) },
		func() (*Response, error) {
			return c.Do("ANNOUNCE", uri, map[string]string{"Content-Type": "application/sdp"}, BuildSdp(tracks))
		},
	}
	for i, t := range tracks {
		i, t := i, t
		steps = append(steps, func() (*Response, error) {
			return c.Do("SETUP", uri+"/"+t.Control, map[string]string{"Transport": fmt.Sprintf("RTP/AVP/TCP;unicast;interleaved=%d-%d;mode=record", 2*i, 2*i+1)}, nil)
		})
	}
	steps = append(steps, func() (*Response, error) {
		return c.Do("RECORD", uri, map[string]string{"Range": "npt=0.000-"}, nil)
	})
	for _, s := range steps {
		r, err := s()
		if err != nil {
			return nil, err
		}
		if r.Status != 200 {
			return r, fmt.Errorf("rtspref: %d %s", r.Status, r.Reason)
		}
	}
	return nil, nil
}

// Describe performs OPTIONS + DESCRIBE and returns the DESCRIBE response.
func (c *Client) Describe(uri string) (*Response, error) {
	if r, err := c.Do("OPTIONS", uri, nil, nil); err != nil {
		return r, err
	}
	return c.Do("DESCRIBE", uri, map[string]string{"Accept": "application/sdp"}, nil)
}

// SetupPlay performs SETUP for each control (interleaved channels 2i/2i+1) and PLAY.
func (c *Client) SetupPlay(uri string, controls []string) error {
	for i, ctl := range controls {
		u := ctl
		if !strings.HasPrefix(ctl, "rtsp://") {
			u = uri + "/" + ctl
		}
		r, err := c.Do("SETUP", u, map[string]string{"Transport": fmt.Sprintf("RTP/AVP/TCP;unicast;interleaved=%d-%d", 2*i, 2*i+1)}, nil)
		if err != nil {
			return err
		}
		if r.Status != 200 {
			return fmt.Errorf("rtspref: SETUP %d %s", r.Status, r.Reason)
		}
	}
	r, err := c.Do("PLAY", uri, map[string]string{"Range": "npt=0.000-"}, nil)
	if err != nil {
		return err
	}
	if r.Status != 200 {
		return fmt.Errorf("rtspref: PLAY %d %s", r.Status, r.Reason)
	}
	return nil
}

// SdpControls extracts the a=control values of the media sections, in order.
func SdpControls(sdp []byte) []string {
	var out []string
	inMedia := false
	for _, l := range strings.Split(strings.ReplaceAll(string(sdp), "\r\n", "\n"), "\n") {
		if strings.HasPrefix(l, "m=") {
			inMedia = true
		}
		if inMedia && strings.HasPrefix(l, "a=control:") {
			out = append(out, strings.TrimPrefix(l, "a=control:"))
		}
	}
	return out
}

// ---------------------------------------------------------------------------
// authentication (RFC 2617)

// BasicAuth builds a Basic authorization header value.
func BasicAuth(user, pass string) string {
	return "Basic " + base64.StdEncoding.EncodeToString([]byte(user+":"+pass))
}

func md5hex(s string) string {
	h := md5.Sum([]byte(s))
	return hex.EncodeToString(h[:])
}

// DigestAuth builds a Digest authorization header value (no qop).
func DigestAuth(user, pass, realm, nonce, method, uri string) string {
	ha1 := md5hex(user + ":" + realm + ":" + pass)
	ha2 := md5hex(method + ":" + uri)
	resp := md5hex(ha1 + ":" + nonce + ":" + ha2)
	return fmt.Sprintf(`Digest username="%s", realm="%s", nonce="%s", uri="%s", response="%s"`, user, realm, nonce, uri, resp)
}

// ParseChallenge extracts scheme, realm and nonce from a WWW-Authenticate value.
func ParseChallenge(v string) (scheme, realm, nonce string) {
	v = strings.TrimSpace(v)
	i := strings.IndexByte(v, ' ')
	if i < 0 {
		return v, "", ""
	}
	scheme = v[:i]
	for _, kv := range strings.Split(v[i+1:], ",") {
		kv = strings.TrimSpace(kv)
		j := strings.IndexByte(kv, '=')
		if j < 0 {
			continue
		}
		k, val := strings.TrimSpace(kv[:j]), strings.Trim(strings.TrimSpace(kv[j+1:]), `"`)
		switch strings.ToLower(k) {
		case "realm":
			realm = val
		case "nonce":
			nonce = val
		}
	}
	return
}
