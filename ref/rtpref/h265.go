package rtpref

import (
	"encoding/binary"
	"fmt"
)

// RFC 7798 section 1.1.4 / 4.2: two-byte NAL unit header (= payload header)
//
//	|F|   Type(6)   |  LayerId(6)  | TID(3) |
//
//	0-47  single NAL unit packet (4.4.1)
//	48    aggregation packet, AP (4.4.2)
//	49    fragmentation unit, FU (4.4.3)
//	50    PACI (4.4.4) - unsupported here
//
// DONL / DOND fields are absent (sprop-max-don-diff = 0).
const (
	h265TypeAP = 48
	h265TypeFU = 49
)

// H265Header builds the two NAL unit header bytes (F = 0); tid is
// nuh_temporal_id_plus1 (1..7).
func H265Header(typ, layerID, tid uint8) [2]byte {
	return [2]byte{(typ&0x3F)<<1 | (layerID>>5)&1, (layerID&0x1F)<<3 | tid&7}
}

// H265Fields splits the two header bytes.
func H265Fields(b0, b1 byte) (f bool, typ, layerID, tid uint8) {
	return b0&0x80 != 0, (b0 >> 1) & 0x3F, (b0&1)<<5 | b1>>3, b1 & 7
}

func h265Check(nal []byte) error {
	if len(nal) < 2 {
		return fmt.Errorf("H.265 NAL unit of %d bytes has no complete header", len(nal))
	}
	if _, t, _, _ := H265Fields(nal[0], nal[1]); t > 47 {
		return fmt.Errorf("NAL unit type %d is reserved for payload structures", t)
	}
	return nil
}

// H265Single returns the payload of a single NAL unit packet.
func H265Single(nal []byte) ([]byte, error) {
	if err := h265Check(nal); err != nil {
		return nil, err
	}
	return append([]byte(nil), nal...), nil
}

// H265AP aggregates at least two NAL units.  F is the OR of the F bits,
// LayerId and TID the lowest values among the aggregated units (4.4.2).
func H265AP(nals [][]byte) ([]byte, error) {
	if len(nals) < 2 {
		return nil, fmt.Errorf("an AP must aggregate at least two NAL units")
	}
	var f byte
	minLayer, minTid := uint8(63), uint8(7)
	size := 2
	for _, n := range nals {
		if err := h265Check(n); err != nil {
			return nil, err
		}
		if len(n) > 0xFFFF {
			return nil, fmt.Errorf("NAL unit of %d bytes cannot be aggregated", len(n))
		}
		ff, _, l, t := H265Fields(n[0], n[1])
		if ff {
			f = 0x80
		}
		if l < minLayer {
			minLayer = l
		}
		if t < minTid {
			minTid = t
		}
		size += 2 + len(n)
	}
	h := H265Header(h265TypeAP, minLayer, minTid)
	out := make([]byte, 0, size)
	out = append(out, h[0]|f, h[1])
	for _, n := range nals {
		out = binary.BigEndian.AppendUint16(out, uint16(len(n)))
		out = append(out, n...)
	}
	return out, nil
}

// H265FU fragments nal; chunk is the number of NAL payload bytes (the two
// header bytes are not part of them) per fragment except the last.  F,
// LayerId and TID of the payload header equal those of the NAL unit (4.4.3).
func H265FU(nal []byte, chunk int) ([][]byte, error) {
	if err := h265Check(nal); err != nil {
		return nil, err
	}
	if len(nal) < 4 {
		return nil, fmt.Errorf("NAL unit of %d bytes cannot be fragmented", len(nal))
	}
	if chunk < 1 {
		return nil, fmt.Errorf("fragment size %d", chunk)
	}
	body := nal[2:]
	if chunk >= len(body) {
		chunk = len(body) - 1
	}
	t := (nal[0] >> 1) & 0x3F
	ph0 := nal[0]&0x81 | h265TypeFU<<1
	ph1 := nal[1]
	var out [][]byte
	for off := 0; off < len(body); off += chunk {
		end := off + chunk
		if end > len(body) {
			end = len(body)
		}
		h := t
		if off == 0 {
			h |= 0x80
		}
		if end == len(body) {
			h |= 0x40
		}
		pl := make([]byte, 0, 3+end-off)
		pl = append(pl, ph0, ph1, h)
		pl = append(pl, body[off:end]...)
		out = append(out, pl)
	}
	return out, nil
}

// H265Depacketizer implements the receiver for sprop-max-don-diff = 0.
type H265Depacketizer struct{ fu fuState }

func (d *H265Depacketizer) Pending() bool { return d.fu.active }

func (d *H265Depacketizer) Push(p *Packet) ([]Unit, error) {
	b := p.Payload
	if len(b) < 2 {
		return nil, fmt.Errorf("payload of %d bytes has no payload header", len(b))
	}
	f, typ, _, tid := H265Fields(b[0], b[1])
	if f {
		return nil, fmt.Errorf("forbidden_zero_bit set")
	}
	if tid == 0 {
		return nil, fmt.Errorf("payload header with nuh_temporal_id_plus1 == 0")
	}
	if d.fu.active && typ != h265TypeFU {
		return nil, fmt.Errorf("packet of type %d inside an unfinished FU", typ)
	}
	switch {
	case typ <= 47:
		return []Unit{{Data: b, TS: p.TS, EndOfFrame: p.Marker, Kind: KindSingle, FirstSeq: p.Seq, LastSeq: p.Seq, Packets: 1}}, nil
	case typ == h265TypeAP:
		var out []Unit
		rest := b[2:]
		_, _, apLayer, apTid := H265Fields(b[0], b[1])
		minLayer, minTid := uint8(63), uint8(7)
		for len(rest) > 0 {
			if len(rest) < 2 {
				return nil, fmt.Errorf("AP: truncated size field")
			}
			n := int(binary.BigEndian.Uint16(rest))
			rest = rest[2:]
			if n < 2 || n > len(rest) {
				return nil, fmt.Errorf("AP: NAL unit size %d with %d bytes left", n, len(rest))
			}
			_, t, l, ti := H265Fields(rest[0], rest[1])
			if t > 47 {
				return nil, fmt.Errorf("AP: aggregated unit of type %d", t)
			}
			if l < minLayer {
				minLayer = l
			}
			if ti < minTid {
				minTid = ti
			}
			out = append(out, Unit{Data: rest[:n], TS: p.TS, Kind: KindAggregated, FirstSeq: p.Seq, LastSeq: p.Seq, Packets: 1})
			rest = rest[n:]
		}
		if len(out) < 2 {
			return nil, fmt.Errorf("AP with %d aggregation units (at least two required)", len(out))
		}
		if apLayer != minLayer || apTid != minTid {
			return nil, fmt.Errorf("AP payload header layer/tid %d/%d, lowest aggregated %d/%d", apLayer, apTid, minLayer, minTid)
		}
		out[len(out)-1].EndOfFrame = p.Marker
		return out, nil
	case typ == h265TypeFU:
		if len(b) < 4 {
			return nil, fmt.Errorf("FU of %d bytes", len(b))
		}
		s, e := b[2]&0x80 != 0, b[2]&0x40 != 0
		ft := b[2] & 0x3F
		if s && e {
			return nil, fmt.Errorf("FU: start and end bit in one fragment")
		}
		if ft > 47 {
			return nil, fmt.Errorf("FU: fragmented unit of type %d", ft)
		}
		hdr := [2]byte{b[0], b[1]}
		if s {
			if d.fu.active {
				return nil, fmt.Errorf("FU: start fragment inside an unfinished unit")
			}
			d.fu.begin(p, []byte{b[0]&0x81 | ft<<1, b[1]}, hdr, ft, b[3:])
		} else {
			if !d.fu.active {
				return nil, fmt.Errorf("FU: fragment without a start fragment")
			}
			if err := d.fu.cont(p, hdr, 2, ft, b[3:]); err != nil {
				return nil, fmt.Errorf("FU: %w", err)
			}
		}
		if e {
			return []Unit{d.fu.finish(p)}, nil
		}
		if p.Marker {
			return nil, fmt.Errorf("FU: marker bit on a fragment that is not the last one")
		}
		return nil, nil
	}
	return nil, fmt.Errorf("unsupported H.265 payload structure type %d", typ)
}
