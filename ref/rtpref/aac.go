package rtpref

import "fmt"

// RFC 3640: MPEG-4 generic payload.
//
//	payload = AU Header Section | (no Auxiliary Section) | Access Unit Data Section
//	AU Header Section = AU-headers-length (16 bit, length of the headers in bits)
//	                    | AU-header(1) .. AU-header(n) | padding to a byte boundary
//	AU-header(1) = AU-size (sizeLength bits) | AU-Index (indexLength bits)
//	AU-header(k) = AU-size | AU-Index-delta (indexDeltaLength bits)
//
// Section 3.2.3.1: a packet carries one or more complete access units or one
// fragment of one access unit; every fragment's AU-header gives the size of
// the whole access unit; the marker bit is set on packets that hold complete
// access units or the last fragment.
//
// AAC-hbr (section 3.3.6): sizeLength=13, indexLength=3, indexDeltaLength=3,
// no interleaving (all index / index-delta values 0).

// AACConfig holds the fmtp parameters that shape the AU-header.
type AACConfig struct {
	SizeLength       int
	IndexLength      int
	IndexDeltaLength int
	// ConstantDuration: RTP ticks per access unit (1024 for AAC-LC); used for
	// the timestamps of the 2nd.. access units of a packet.
	ConstantDuration uint32
}

// AACHbr is the configuration lal announces and expects.
var AACHbr = AACConfig{SizeLength: 13, IndexLength: 3, IndexDeltaLength: 3, ConstantDuration: 1024}

// MaxAU returns the largest access unit the AU-size field can describe.
func (c AACConfig) MaxAU() int { return 1<<uint(c.SizeLength) - 1 }

type bitWriter struct {
	b    []byte
	nbit int
}

func (w *bitWriter) put(v uint32, n int) {
	for i := n - 1; i >= 0; i-- {
		if w.nbit%8 == 0 {
			w.b = append(w.b, 0)
		}
		if v>>uint(i)&1 != 0 {
			w.b[len(w.b)-1] |= 0x80 >> uint(w.nbit%8)
		}
		w.nbit++
	}
}

type bitReader struct {
	b   []byte
	pos int
}

func (r *bitReader) get(n int) (uint32, bool) {
	if r.pos+n > 8*len(r.b) {
		return 0, false
	}
	var v uint32
	for i := 0; i < n; i++ {
		v = v<<1 | uint32(r.b[r.pos/8]>>(7-uint(r.pos%8))&1)
		r.pos++
	}
	return v, true
}

func (c AACConfig) headerSection(sizes []int) []byte {
	var w bitWriter
	for i, s := range sizes {
		w.put(uint32(s), c.SizeLength)
		if i == 0 {
			w.put(0, c.IndexLength)
		} else {
			w.put(0, c.IndexDeltaLength)
		}
	}
	out := []byte{byte(w.nbit >> 8), byte(w.nbit)}
	return append(out, w.b...)
}

// AACPacket returns the payload carrying the complete access units aus.
func (c AACConfig) AACPacket(aus [][]byte) ([]byte, error) {
	if len(aus) == 0 {
		return nil, fmt.Errorf("no access unit")
	}
	sizes := make([]int, len(aus))
	for i, a := range aus {
		if len(a) == 0 || len(a) > c.MaxAU() {
			return nil, fmt.Errorf("access unit of %d bytes does not fit AU-size (%d bits)", len(a), c.SizeLength)
		}
		sizes[i] = len(a)
	}
	out := c.headerSection(sizes)
	for _, a := range aus {
		out = append(out, a...)
	}
	return out, nil
}

// AACFragments splits au into at least two fragment payloads carrying chunk
// bytes of access unit data each (the last one the remainder).
func (c AACConfig) AACFragments(au []byte, chunk int) ([][]byte, error) {
	if len(au) < 2 || len(au) > c.MaxAU() {
		return nil, fmt.Errorf("access unit of %d bytes cannot be fragmented", len(au))
	}
	if chunk < 1 {
		return nil, fmt.Errorf("fragment size %d", chunk)
	}
	if chunk >= len(au) {
		chunk = len(au) - 1
	}
	hdr := c.headerSection([]int{len(au)})
	var out [][]byte
	for off := 0; off < len(au); off += chunk {
		end := off + chunk
		if end > len(au) {
			end = len(au)
		}
		pl := append(append([]byte(nil), hdr...), au[off:end]...)
		out = append(out, pl)
	}
	return out, nil
}

// AACDepacketizer is the receiver for one MPEG-4 generic stream.
type AACDepacketizer struct {
	Cfg AACConfig

	frag     bool
	buf      []byte
	total    int
	ts       uint32
	firstSeq uint16
	lastSeq  uint16
	packets  int
}

func NewAACDepacketizer() *AACDepacketizer { return &AACDepacketizer{Cfg: AACHbr} }

func (d *AACDepacketizer) Pending() bool { return d.frag }

func (d *AACDepacketizer) Push(p *Packet) ([]Unit, error) {
	c := d.Cfg
	b := p.Payload
	if len(b) < 2 {
		return nil, fmt.Errorf("payload of %d bytes has no AU-headers-length", len(b))
	}
	hbits := int(b[0])<<8 | int(b[1])
	hbytes := (hbits + 7) / 8
	if 2+hbytes > len(b) {
		return nil, fmt.Errorf("AU header section of %d bits exceeds the payload", hbits)
	}
	r := bitReader{b: b[2 : 2+hbytes]}
	var sizes []int
	for r.pos < hbits {
		idxLen := c.IndexDeltaLength
		if len(sizes) == 0 {
			idxLen = c.IndexLength
		}
		if r.pos+c.SizeLength+idxLen > hbits {
			return nil, fmt.Errorf("AU-headers-length %d is not a whole number of AU-headers", hbits)
		}
		s, _ := r.get(c.SizeLength)
		idx, _ := r.get(idxLen)
		if idx != 0 {
			return nil, fmt.Errorf("AU-Index(-delta) %d: interleaving is not allowed for this stream", idx)
		}
		if s == 0 {
			return nil, fmt.Errorf("AU-size 0")
		}
		sizes = append(sizes, int(s))
	}
	if len(sizes) == 0 {
		return nil, fmt.Errorf("no AU-header")
	}
	data := b[2+hbytes:]
	if len(data) == 0 {
		return nil, fmt.Errorf("no access unit data")
	}
	sum := 0
	for _, s := range sizes {
		sum += s
	}

	if d.frag {
		// continuation of a fragmented access unit
		if len(sizes) != 1 || sizes[0] != d.total {
			return nil, fmt.Errorf("fragment AU-header %v, expected the size of the whole access unit %d", sizes, d.total)
		}
		if p.Seq != d.lastSeq+1 {
			return nil, fmt.Errorf("fragment seq %d does not follow %d", p.Seq, d.lastSeq)
		}
		if p.TS != d.ts {
			return nil, fmt.Errorf("fragments of one access unit carry different timestamps (%d, %d)", d.ts, p.TS)
		}
		d.buf = append(d.buf, data...)
		d.lastSeq = p.Seq
		d.packets++
		switch {
		case len(d.buf) > d.total:
			return nil, fmt.Errorf("fragments add up to %d bytes, access unit has %d", len(d.buf), d.total)
		case len(d.buf) == d.total:
			if !p.Marker {
				return nil, fmt.Errorf("last fragment without marker bit")
			}
			u := Unit{Data: d.buf, TS: d.ts, EndOfFrame: true, Kind: KindFragmented, FirstSeq: d.firstSeq, LastSeq: d.lastSeq, Packets: d.packets}
			d.frag, d.buf = false, nil
			return []Unit{u}, nil
		default:
			if p.Marker {
				return nil, fmt.Errorf("marker bit on a fragment that is not the last one")
			}
			return nil, nil
		}
	}

	if len(sizes) == 1 && sizes[0] > len(data) {
		// first fragment
		if p.Marker {
			return nil, fmt.Errorf("marker bit on a first fragment")
		}
		d.frag = true
		d.buf = append([]byte(nil), data...)
		d.total, d.ts = sizes[0], p.TS
		d.firstSeq, d.lastSeq, d.packets = p.Seq, p.Seq, 1
		return nil, nil
	}
	if sum != len(data) {
		return nil, fmt.Errorf("AU sizes %v add up to %d, access unit data section has %d bytes", sizes, sum, len(data))
	}
	if !p.Marker {
		return nil, fmt.Errorf("packet with complete access units without marker bit")
	}
	kind := KindSingle
	if len(sizes) > 1 {
		kind = KindAggregated
	}
	var out []Unit
	for i, s := range sizes {
		out = append(out, Unit{Data: data[:s], TS: p.TS + uint32(i)*c.ConstantDuration, EndOfFrame: i == len(sizes)-1, Kind: kind, FirstSeq: p.Seq, LastSeq: p.Seq, Packets: 1})
		data = data[s:]
	}
	return out, nil
}
