package rtpref

import (
	"encoding/binary"
	"fmt"
)

// RFC 6184 section 5.2: NAL unit header  |F|NRI(2)|Type(5)|
//
//	1-23  single NAL unit packet (5.6)
//	24    STAP-A (5.7.1)
//	28    FU-A   (5.8)
//
// STAP-B, MTAP16/24 and FU-B (25-27, 29) belong to the interleaved mode and
// are reported as unsupported; 0, 30, 31 are undefined.
const (
	h264TypeSTAPA = 24
	h264TypeFUA   = 28
)

// H264Header builds a NAL unit header byte (F = 0).
func H264Header(nri, typ uint8) byte { return (nri&3)<<5 | typ&0x1F }

// H264Single returns the payload of a single NAL unit packet.
func H264Single(nal []byte) ([]byte, error) {
	if len(nal) == 0 {
		return nil, fmt.Errorf("empty NAL unit")
	}
	if t := nal[0] & 0x1F; t < 1 || t > 23 {
		return nil, fmt.Errorf("NAL unit type %d cannot travel as a single NAL unit packet", t)
	}
	return append([]byte(nil), nal...), nil
}

// H264STAPA aggregates nals into one STAP-A payload.  F is the OR of the F
// bits, NRI the maximum NRI (5.7).
func H264STAPA(nals [][]byte) ([]byte, error) {
	if len(nals) == 0 {
		return nil, fmt.Errorf("STAP-A needs at least one NAL unit")
	}
	var f, nri byte
	size := 1
	for _, n := range nals {
		if len(n) == 0 || len(n) > 0xFFFF {
			return nil, fmt.Errorf("NAL unit of %d bytes cannot be aggregated", len(n))
		}
		if t := n[0] & 0x1F; t < 1 || t > 23 {
			return nil, fmt.Errorf("NAL unit type %d cannot be aggregated", t)
		}
		f |= n[0] & 0x80
		if v := n[0] & 0x60; v > nri {
			nri = v
		}
		size += 2 + len(n)
	}
	out := make([]byte, 0, size)
	out = append(out, f|nri|h264TypeSTAPA)
	for _, n := range nals {
		out = binary.BigEndian.AppendUint16(out, uint16(len(n)))
		out = append(out, n...)
	}
	return out, nil
}

// H264FUA fragments nal into FU-A payloads; chunk is the number of NAL payload
// bytes (the header byte is not part of them) carried by every fragment but
// the last.  At least two fragments are produced, none of them empty, so the
// NAL unit needs at least two bytes after its header.
func H264FUA(nal []byte, chunk int) ([][]byte, error) {
	if len(nal) < 3 {
		return nil, fmt.Errorf("NAL unit of %d bytes cannot be fragmented", len(nal))
	}
	t := nal[0] & 0x1F
	if t < 1 || t > 23 {
		return nil, fmt.Errorf("NAL unit type %d cannot be fragmented", t)
	}
	body := nal[1:]
	if chunk < 1 {
		return nil, fmt.Errorf("fragment size %d", chunk)
	}
	if chunk >= len(body) {
		chunk = len(body) - 1
	}
	ind := nal[0]&0xE0 | h264TypeFUA
	var out [][]byte
	for off := 0; off < len(body); off += chunk {
		end := off + chunk
		if end > len(body) {
			end = len(body)
		}
		h := t
		if off == 0 {
			h |= 0x80
		}
		if end == len(body) {
			h |= 0x40
		}
		pl := make([]byte, 0, 2+end-off)
		pl = append(pl, ind, h)
		pl = append(pl, body[off:end]...)
		out = append(out, pl)
	}
	return out, nil
}

// H264Depacketizer implements the non-interleaved mode receiver.
type H264Depacketizer struct{ fu fuState }

func (d *H264Depacketizer) Pending() bool { return d.fu.active }

func (d *H264Depacketizer) Push(p *Packet) ([]Unit, error) {
	b := p.Payload
	if len(b) == 0 {
		return nil, fmt.Errorf("empty payload")
	}
	if b[0]&0x80 != 0 {
		return nil, fmt.Errorf("forbidden_zero_bit set")
	}
	typ := b[0] & 0x1F
	if d.fu.active && typ != h264TypeFUA {
		return nil, fmt.Errorf("packet of type %d inside an unfinished FU-A", typ)
	}
	switch {
	case typ >= 1 && typ <= 23:
		return []Unit{{Data: b, TS: p.TS, EndOfFrame: p.Marker, Kind: KindSingle, FirstSeq: p.Seq, LastSeq: p.Seq, Packets: 1}}, nil
	case typ == h264TypeSTAPA:
		var out []Unit
		rest := b[1:]
		if len(rest) == 0 {
			return nil, fmt.Errorf("STAP-A without NAL units")
		}
		for len(rest) > 0 {
			if len(rest) < 2 {
				return nil, fmt.Errorf("STAP-A: truncated size field")
			}
			n := int(binary.BigEndian.Uint16(rest))
			rest = rest[2:]
			if n == 0 || n > len(rest) {
				return nil, fmt.Errorf("STAP-A: NAL unit size %d with %d bytes left", n, len(rest))
			}
			if t := rest[0] & 0x1F; t < 1 || t > 23 {
				return nil, fmt.Errorf("STAP-A: aggregated unit of type %d", t)
			}
			out = append(out, Unit{Data: rest[:n], TS: p.TS, Kind: KindAggregated, FirstSeq: p.Seq, LastSeq: p.Seq, Packets: 1})
			rest = rest[n:]
		}
		out[len(out)-1].EndOfFrame = p.Marker
		return out, nil
	case typ == h264TypeFUA:
		if len(b) < 3 {
			return nil, fmt.Errorf("FU-A of %d bytes", len(b))
		}
		s, e, r := b[1]&0x80 != 0, b[1]&0x40 != 0, b[1]&0x20 != 0
		ft := b[1] & 0x1F
		if r {
			return nil, fmt.Errorf("FU-A: reserved bit set")
		}
		if s && e {
			return nil, fmt.Errorf("FU-A: start and end bit in one fragment")
		}
		if ft < 1 || ft > 23 {
			return nil, fmt.Errorf("FU-A: fragmented unit of type %d", ft)
		}
		hdr := [2]byte{b[0]}
		if s {
			if d.fu.active {
				return nil, fmt.Errorf("FU-A: start fragment inside an unfinished unit")
			}
			d.fu.begin(p, []byte{b[0]&0xE0 | ft}, hdr, ft, b[2:])
		} else {
			if !d.fu.active {
				return nil, fmt.Errorf("FU-A: fragment without a start fragment")
			}
			if err := d.fu.cont(p, hdr, 1, ft, b[2:]); err != nil {
				return nil, fmt.Errorf("FU-A: %w", err)
			}
		}
		if e {
			return []Unit{d.fu.finish(p)}, nil
		}
		if p.Marker {
			return nil, fmt.Errorf("FU-A: marker bit on a fragment that is not the last one")
		}
		return nil, nil
	}
	return nil, fmt.Errorf("unsupported H.264 payload structure type %d", typ)
}
