// Package rtpref is an independent reference implementation of the RTP
// pieces lal's checks need, written from the RFCs and never importing lal:
//
//   - RFC 3550 section 5.1: fixed header, CSRC list, header extension, padding
//     (Parse / Packet.Marshal) and modular sequence arithmetic;
//   - RFC 6184 (H.264): single NAL unit packets, STAP-A, FU-A;
//   - RFC 7798 (H.265): single NAL unit packets, aggregation packets (AP),
//     fragmentation units (FU), without DONL (sprop-max-don-diff = 0);
//   - RFC 3640 (MPEG-4 generic, AAC-hbr by default): AU-header section,
//     several complete access units per packet, fragmented access units;
//   - raw one-frame-per-packet payloads (G.711 RFC 3551, Opus RFC 7587).
//
// Every format comes as a packetiser (payload builders plus PacketizeVideo /
// PacketizeAAC with a generated mode per unit) and a strict, stateful
// depacketiser (Depacketizer.Push) that reports anything the RFC forbids as
// an error instead of guessing.
package rtpref

import (
	"encoding/binary"
	"errors"
	"fmt"
)

// Packet is one RTP packet (RFC 3550 section 5.1).
type Packet struct {
	Marker  bool
	PT      uint8 // 7 bits
	Seq     uint16
	TS      uint32
	SSRC    uint32
	CSRC    []uint32 // at most 15
	HasExt  bool
	ExtProf uint16 // "defined by profile"
	ExtData []byte // length must be a multiple of 4
	// PadLen is the number of padding octets at the end of the packet including
	// the final count octet; 0 means the P bit is clear.
	PadLen  int
	Payload []byte
}

const FixedHeaderLen = 12

var (
	ErrShort   = errors.New("rtpref: packet shorter than its header says")
	ErrVersion = errors.New("rtpref: RTP version is not 2")
	ErrPadding = errors.New("rtpref: invalid padding count")
)

// Marshal serialises the packet.  It panics on values that do not fit the
// wire format (a harness bug, never input dependent).
func (p *Packet) Marshal() []byte {
	if p.PT > 127 || len(p.CSRC) > 15 || len(p.ExtData)%4 != 0 || len(p.ExtData)/4 > 0xFFFF || p.PadLen < 0 || p.PadLen > 255 {
		panic(fmt.Sprintf("rtpref: unrepresentable packet pt=%d csrc=%d ext=%d pad=%d", p.PT, len(p.CSRC), len(p.ExtData), p.PadLen))
	}
	n := FixedHeaderLen + 4*len(p.CSRC) + len(p.Payload) + p.PadLen
	if p.HasExt {
		n += 4 + len(p.ExtData)
	}
	b := make([]byte, 0, n)
	b0 := byte(2<<6) | byte(len(p.CSRC))
	if p.PadLen > 0 {
		b0 |= 1 << 5
	}
	if p.HasExt {
		b0 |= 1 << 4
	}
	b1 := p.PT
	if p.Marker {
		b1 |= 0x80
	}
	b = append(b, b0, b1)
	b = binary.BigEndian.AppendUint16(b, p.Seq)
	b = binary.BigEndian.AppendUint32(b, p.TS)
	b = binary.BigEndian.AppendUint32(b, p.SSRC)
	for _, c := range p.CSRC {
		b = binary.BigEndian.AppendUint32(b, c)
	}
	if p.HasExt {
		b = binary.BigEndian.AppendUint16(b, p.ExtProf)
		b = binary.BigEndian.AppendUint16(b, uint16(len(p.ExtData)/4))
		b = append(b, p.ExtData...)
	}
	b = append(b, p.Payload...)
	if p.PadLen > 0 {
		for i := 0; i < p.PadLen-1; i++ {
			b = append(b, 0)
		}
		b = append(b, byte(p.PadLen))
	}
	return b
}

// Parse decodes one RTP packet strictly.  The returned payload is a copy.
func Parse(b []byte) (*Packet, error) {
	if len(b) < FixedHeaderLen {
		return nil, ErrShort
	}
	if b[0]>>6 != 2 {
		return nil, ErrVersion
	}
	p := &Packet{}
	hasPad := b[0]&0x20 != 0
	p.HasExt = b[0]&0x10 != 0
	cc := int(b[0] & 0x0F)
	p.Marker = b[1]&0x80 != 0
	p.PT = b[1] & 0x7F
	p.Seq = binary.BigEndian.Uint16(b[2:])
	p.TS = binary.BigEndian.Uint32(b[4:])
	p.SSRC = binary.BigEndian.Uint32(b[8:])
	off := FixedHeaderLen
	if len(b) < off+4*cc {
		return nil, ErrShort
	}
	for i := 0; i < cc; i++ {
		p.CSRC = append(p.CSRC, binary.BigEndian.Uint32(b[off:]))
		off += 4
	}
	if p.HasExt {
		if len(b) < off+4 {
			return nil, ErrShort
		}
		p.ExtProf = binary.BigEndian.Uint16(b[off:])
		words := int(binary.BigEndian.Uint16(b[off+2:]))
		off += 4
		if len(b) < off+4*words {
			return nil, ErrShort
		}
		p.ExtData = append([]byte(nil), b[off:off+4*words]...)
		off += 4 * words
	}
	end := len(b)
	if hasPad {
		if end == off {
			return nil, ErrPadding
		}
		p.PadLen = int(b[end-1])
		if p.PadLen == 0 || p.PadLen > end-off {
			return nil, ErrPadding
		}
		end -= p.PadLen
	}
	p.Payload = append([]byte(nil), b[off:end]...)
	return p, nil
}

// SeqDelta returns a-b in modulo-2^16 arithmetic as a signed distance in
// [-32768, 32767] (RFC 3550 appendix A.1 style comparison).
func SeqDelta(a, b uint16) int { return int(int16(a - b)) }

// SeqLess reports whether a precedes b in modulo-2^16 order.
func SeqLess(a, b uint16) bool { return SeqDelta(a, b) < 0 }

// TSFromMillis returns the RTP timestamp (modulo 2^32) of a media time given
// in milliseconds at the given clock rate, rounded down, together with the
// exact remainder flag (true when ms*clock is not a multiple of 1000).
func TSFromMillis(ms int64, clock int) (ts uint32, inexact bool) {
	prod := uint64(ms) * uint64(clock)
	return uint32(prod / 1000), prod%1000 != 0
}

// TSWithinOneTick reports whether got equals want modulo 2^32 up to one tick.
func TSWithinOneTick(got, want uint32) bool {
	d := got - want
	return d == 0 || d == 1 || d == 0xFFFFFFFF
}

// Sequencer stamps payloads with consecutive sequence numbers.
type Sequencer struct {
	PT   uint8
	SSRC uint32
	Seq  uint16 // next sequence number
}

// Frame wraps the payloads of one frame / access unit: same timestamp, marker
// on the last packet when markLast is set.
func (s *Sequencer) Frame(payloads [][]byte, ts uint32, markLast bool) []*Packet {
	out := make([]*Packet, 0, len(payloads))
	for i, pl := range payloads {
		out = append(out, &Packet{
			Marker: markLast && i == len(payloads)-1, PT: s.PT, Seq: s.Seq, TS: ts, SSRC: s.SSRC, Payload: pl,
		})
		s.Seq++
	}
	return out
}
