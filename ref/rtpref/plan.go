package rtpref

import "fmt"

// Codec selects a payload format.
type Codec string

const (
	H264  Codec = "avc"
	H265  Codec = "hevc"
	AAC   Codec = "aac"
	G711A Codec = "g711a"
	G711U Codec = "g711u"
	Opus  Codec = "opus"
)

// IsVideo reports whether c is a NAL-unit based format.
func (c Codec) IsVideo() bool { return c == H264 || c == H265 }

// NewDepacketizer returns a fresh receiver for c.
func NewDepacketizer(c Codec) Depacketizer {
	switch c {
	case H264:
		return &H264Depacketizer{}
	case H265:
		return &H265Depacketizer{}
	case AAC:
		return NewAACDepacketizer()
	case G711A, G711U, Opus:
		return RawDepacketizer{}
	}
	panic("rtpref: unknown codec " + string(c))
}

// Mode is the packetisation wish for one unit.
type Mode uint8

const (
	ModeSingle    Mode = iota // one unit = one packet
	ModeAggregate             // together with neighbouring ModeAggregate units in one STAP-A / AP / multi-AU packet
	ModeFragment              // FU-A / FU / fragmented access unit
)

// UnitPlan is the generated packetisation of one unit.  Chunk is the number
// of unit payload bytes per fragment for ModeFragment (0 = as many as fit).
type UnitPlan struct {
	Mode  Mode `json:"mode"`
	Chunk int  `json:"chunk,omitempty"`
}

func headerLen(c Codec) int {
	if c == H265 {
		return 2
	}
	return 1
}

// MinFragmentable is the smallest unit that can be split into two non-empty
// fragments.
func MinFragmentable(c Codec) int {
	switch c {
	case H264:
		return 3
	case H265:
		return 4
	}
	return 2
}

// PacketizeVideo turns the NAL units of one access unit into RTP payloads of
// at most maxPayload bytes following plans (len(plans) == len(units)).
// Wishes that the format cannot honour are adjusted the way a real sender
// would: a unit larger than maxPayload is always fragmented, a unit too small
// to fragment is sent whole, an aggregate that would exceed maxPayload (or a
// lone aggregate wish) degrades to single packets.
func PacketizeVideo(c Codec, units [][]byte, plans []UnitPlan, maxPayload int) ([][]byte, error) {
	if !c.IsVideo() {
		return nil, fmt.Errorf("%s is not a video codec", c)
	}
	if len(plans) != len(units) {
		return nil, fmt.Errorf("%d plans for %d units", len(plans), len(units))
	}
	hl := headerLen(c)
	fuOverhead := hl + 1 // FU indicator/payload header + FU header
	if maxPayload < fuOverhead+1 {
		return nil, fmt.Errorf("payload limit %d leaves no room for fragments", maxPayload)
	}
	single := func(n []byte) ([]byte, error) {
		if c == H264 {
			return H264Single(n)
		}
		return H265Single(n)
	}
	var out [][]byte
	for i := 0; i < len(units); {
		u, pl := units[i], plans[i]
		mode := pl.Mode
		if len(u) > maxPayload {
			mode = ModeFragment
		}
		if mode == ModeFragment && len(u) < MinFragmentable(c) {
			mode = ModeSingle
		}
		switch mode {
		case ModeFragment:
			chunk := pl.Chunk
			if chunk <= 0 || chunk > maxPayload-fuOverhead {
				chunk = maxPayload - fuOverhead
			}
			var frags [][]byte
			var err error
			if c == H264 {
				frags, err = H264FUA(u, chunk)
			} else {
				frags, err = H265FU(u, chunk)
			}
			if err != nil {
				return nil, err
			}
			out = append(out, frags...)
			i++
		case ModeAggregate:
			// greedily collect the following aggregate wishes that fit
			size := hl
			j := i
			for j < len(units) && plans[j].Mode == ModeAggregate && len(units[j]) <= 0xFFFF && size+2+len(units[j]) <= maxPayload {
				size += 2 + len(units[j])
				j++
			}
			if j-i >= 2 {
				var p []byte
				var err error
				if c == H264 {
					p, err = H264STAPA(units[i:j])
				} else {
					p, err = H265AP(units[i:j])
				}
				if err != nil {
					return nil, err
				}
				out = append(out, p)
				i = j
				continue
			}
			fallthrough
		default:
			p, err := single(u)
			if err != nil {
				return nil, err
			}
			out = append(out, p)
			i++
		}
	}
	return out, nil
}

// AACGroup is one RTP timestamp's worth of access units: either several
// complete access units in one packet or one (possibly fragmented) unit.
type AACGroup struct {
	Payloads [][]byte
	AUs      int
}

// PacketizeAAC packs consecutive access units.  Consecutive ModeAggregate
// units share one packet while they fit maxPayload; ModeFragment units and
// units larger than maxPayload-4 are fragmented.  The caller stamps group k
// with the timestamp of its first access unit.
func PacketizeAAC(cfg AACConfig, aus [][]byte, plans []UnitPlan, maxPayload int) ([]AACGroup, error) {
	if len(plans) != len(aus) {
		return nil, fmt.Errorf("%d plans for %d access units", len(plans), len(aus))
	}
	hdr1 := 2 + (cfg.SizeLength+cfg.IndexLength+7)/8
	if maxPayload < hdr1+1 {
		return nil, fmt.Errorf("payload limit %d leaves no room for access unit data", maxPayload)
	}
	var out []AACGroup
	for i := 0; i < len(aus); {
		a, pl := aus[i], plans[i]
		mode := pl.Mode
		if hdr1+len(a) > maxPayload {
			mode = ModeFragment
		}
		if mode == ModeFragment && len(a) < 2 {
			mode = ModeSingle
		}
		switch mode {
		case ModeFragment:
			chunk := pl.Chunk
			if chunk <= 0 || chunk > maxPayload-hdr1 {
				chunk = maxPayload - hdr1
			}
			f, err := cfg.AACFragments(a, chunk)
			if err != nil {
				return nil, err
			}
			out = append(out, AACGroup{Payloads: f, AUs: 1})
			i++
		case ModeAggregate:
			j := i
			bits := 0
			data := 0
			for j < len(aus) && plans[j].Mode == ModeAggregate {
				nb := bits + cfg.SizeLength + cfg.IndexDeltaLength
				if j == i {
					nb = cfg.SizeLength + cfg.IndexLength
				}
				if 2+(nb+7)/8+data+len(aus[j]) > maxPayload {
					break
				}
				bits = nb
				data += len(aus[j])
				j++
			}
			if j == i {
				j = i + 1
			}
			p, err := cfg.AACPacket(aus[i:j])
			if err != nil {
				return nil, err
			}
			out = append(out, AACGroup{Payloads: [][]byte{p}, AUs: j - i})
			i = j
		default:
			p, err := cfg.AACPacket(aus[i : i+1])
			if err != nil {
				return nil, err
			}
			out = append(out, AACGroup{Payloads: [][]byte{p}, AUs: 1})
			i++
		}
	}
	return out, nil
}
