package rtpref

import "encoding/binary"

// SanitizeNALU rewrites raw in place into a byte string that is a legal NAL
// unit body as far as byte-stream framing is concerned (H.264 / H.265 section
// 7.4.1 and annex B): after the hdrLen header bytes no three-byte sequence
// 00 00 00, 00 00 01 or 00 00 02 occurs (the third byte is replaced by the
// emulation prevention value 03) and the last byte is not 00.  The length is
// preserved, so a start code can neither appear inside the unit nor be formed
// together with a following start code, and Annex-B splitting is unambiguous.
func SanitizeNALU(raw []byte, hdrLen int) []byte {
	zeros := 0
	for i := hdrLen; i < len(raw); i++ {
		if zeros >= 2 && raw[i] <= 2 {
			raw[i] = 3
		}
		if raw[i] == 0 {
			zeros++
		} else {
			zeros = 0
		}
	}
	if n := len(raw); n > hdrLen && raw[n-1] == 0 {
		raw[n-1] = 0x80 // rbsp_stop_one_bit
	}
	return raw
}

// BuildNALU assembles header | 4-byte big-endian serial | filler, truncated or
// extended to exactly size bytes (size >= len(header)), and sanitises it.
// filler supplies the bytes after the serial.
func BuildNALU(header []byte, serial uint32, filler []byte, size int) []byte {
	if size < len(header) {
		size = len(header)
	}
	out := make([]byte, 0, size)
	out = append(out, header...)
	var s [4]byte
	binary.BigEndian.PutUint32(s[:], serial)
	out = append(out, s[:]...)
	out = append(out, filler...)
	for len(out) < size {
		out = append(out, 0x55)
	}
	out = out[:size]
	return SanitizeNALU(out, len(header))
}

// ContainsStartCode reports whether b contains 00 00 01 (used by harness
// self-checks).
func ContainsStartCode(b []byte) bool {
	for i := 0; i+2 < len(b); i++ {
		if b[i] == 0 && b[i+1] == 0 && b[i+2] == 1 {
			return true
		}
	}
	return false
}

// AVCC joins NAL units with 4-byte big-endian length prefixes.
func AVCC(nals [][]byte) []byte {
	var out []byte
	for _, n := range nals {
		out = binary.BigEndian.AppendUint32(out, uint32(len(n)))
		out = append(out, n...)
	}
	return out
}

// SplitAVCC is the inverse of AVCC; ok is false when the lengths do not add up.
func SplitAVCC(b []byte) (nals [][]byte, ok bool) {
	for len(b) > 0 {
		if len(b) < 4 {
			return nals, false
		}
		n := int(binary.BigEndian.Uint32(b))
		b = b[4:]
		if n > len(b) {
			return nals, false
		}
		nals = append(nals, b[:n])
		b = b[n:]
	}
	return nals, true
}

// AnnexB joins NAL units with start codes; long[i] selects the four-byte
// form for unit i (missing entries = three-byte form).
func AnnexB(nals [][]byte, long []bool) []byte {
	var out []byte
	for i, n := range nals {
		if i < len(long) && long[i] {
			out = append(out, 0)
		}
		out = append(out, 0, 0, 1)
		out = append(out, n...)
	}
	return out
}
