package rtpref

import "fmt"

// UnitKind says how a unit travelled.
type UnitKind uint8

const (
	KindSingle     UnitKind = iota // one unit = one packet
	KindAggregated                 // STAP-A / AP member, or one of several AUs in an AAC packet
	KindFragmented                 // FU-A / FU / fragmented AAC access unit
)

func (k UnitKind) String() string {
	switch k {
	case KindSingle:
		return "single"
	case KindAggregated:
		return "aggregated"
	case KindFragmented:
		return "fragmented"
	}
	return "?"
}

// Unit is one depacketised elementary unit: a NAL unit including its one
// (H.264) or two (H.265) header bytes, one AAC access unit, or one raw audio
// frame.
type Unit struct {
	Data []byte
	TS   uint32 // RTP timestamp (for the n-th AU of an AAC packet: ts + n*ConstantDuration)
	// EndOfFrame: the packet that completed this unit carried the marker bit and
	// this is the last unit completed by that packet.
	EndOfFrame bool
	Kind       UnitKind
	FirstSeq   uint16
	LastSeq    uint16
	Packets    int
}

// Depacketizer consumes the packets of one RTP stream in sequence order.
type Depacketizer interface {
	// Push returns the units completed by p.  Packets must be pushed in
	// sequence-number order; anything the payload format forbids is an error.
	Push(p *Packet) ([]Unit, error)
	// Pending reports whether a fragmented unit is still open.
	Pending() bool
}

// Depacketize pushes pkts (which must already be in order) through d, checking
// that sequence numbers increase by exactly one modulo 2^16, and fails when a
// fragmented unit is left open at the end.
func Depacketize(d Depacketizer, pkts []*Packet) ([]Unit, error) {
	var out []Unit
	for i, p := range pkts {
		if i > 0 && p.Seq != pkts[i-1].Seq+1 {
			return out, fmt.Errorf("packet %d: sequence number %d does not follow %d", i, p.Seq, pkts[i-1].Seq)
		}
		u, err := d.Push(p)
		if err != nil {
			return out, fmt.Errorf("packet %d (seq %d): %w", i, p.Seq, err)
		}
		out = append(out, u...)
	}
	if d.Pending() {
		return out, fmt.Errorf("stream ends inside a fragmented unit")
	}
	return out, nil
}

// Frame is a run of units with the same RTP timestamp.
type Frame struct {
	TS    uint32
	Units [][]byte
	// Marked: the last packet of the frame carried the marker bit.
	Marked bool
}

// GroupFrames groups units into frames: a frame ends at a unit with
// EndOfFrame or where the timestamp changes.
func GroupFrames(units []Unit) []Frame {
	var out []Frame
	open := false
	for _, u := range units {
		if !open || out[len(out)-1].TS != u.TS {
			out = append(out, Frame{TS: u.TS})
			open = true
		}
		f := &out[len(out)-1]
		f.Units = append(f.Units, u.Data)
		if u.EndOfFrame {
			f.Marked = true
			open = false
		}
	}
	return out
}

// fuState is the reassembly state shared by H.264 FU-A and H.265 FU.
type fuState struct {
	active   bool
	buf      []byte
	hdr      [2]byte // payload header bytes of the first fragment (1 used for H.264)
	typ      uint8
	ts       uint32
	ssrc     uint32
	firstSeq uint16
	lastSeq  uint16
	packets  int
}

func (f *fuState) begin(p *Packet, nalHdr []byte, hdr [2]byte, typ uint8, frag []byte) {
	f.active = true
	f.buf = append(append(f.buf[:0:0], nalHdr...), frag...)
	f.hdr, f.typ, f.ts, f.ssrc = hdr, typ, p.TS, p.SSRC
	f.firstSeq, f.lastSeq, f.packets = p.Seq, p.Seq, 1
}

func (f *fuState) cont(p *Packet, hdr [2]byte, hdrLen int, typ uint8, frag []byte) error {
	if p.Seq != f.lastSeq+1 {
		return fmt.Errorf("fragment seq %d does not follow %d", p.Seq, f.lastSeq)
	}
	if p.TS != f.ts {
		return fmt.Errorf("fragments of one unit carry different timestamps (%d, %d)", f.ts, p.TS)
	}
	if typ != f.typ {
		return fmt.Errorf("fragment type %d differs from the start fragment's %d", typ, f.typ)
	}
	for i := 0; i < hdrLen; i++ {
		if hdr[i] != f.hdr[i] {
			return fmt.Errorf("fragment payload header % x differs from the start fragment's % x", hdr[:hdrLen], f.hdr[:hdrLen])
		}
	}
	f.buf = append(f.buf, frag...)
	f.lastSeq = p.Seq
	f.packets++
	return nil
}

func (f *fuState) finish(p *Packet) Unit {
	u := Unit{Data: f.buf, TS: f.ts, EndOfFrame: p.Marker, Kind: KindFragmented, FirstSeq: f.firstSeq, LastSeq: f.lastSeq, Packets: f.packets}
	f.active = false
	f.buf = nil
	return u
}

// ---------------------------------------------------------------------------
// raw: one frame per packet (G.711, Opus)

// RawDepacketizer treats every payload as one frame.
type RawDepacketizer struct{}

func (RawDepacketizer) Push(p *Packet) ([]Unit, error) {
	if len(p.Payload) == 0 {
		return nil, fmt.Errorf("empty payload")
	}
	return []Unit{{Data: p.Payload, TS: p.TS, EndOfFrame: p.Marker, Kind: KindSingle, FirstSeq: p.Seq, LastSeq: p.Seq, Packets: 1}}, nil
}
func (RawDepacketizer) Pending() bool { return false }
