package wsref

import (
	"bytes"
	"errors"
	"io"
)

// Stream adapts a WebSocket connection (after the HTTP upgrade) to a byte
// stream: Read returns the concatenated payloads of the data frames received
// (validating every frame header), Write sends its argument as one masked
// binary frame, as a client must.
type Stream struct {
	rw        io.ReadWriter
	p         Parser
	pending   []byte
	hdrDone   bool
	hdrBuf    []byte
	Upgrade   string // the HTTP response header received before the first frame
	Frames    int
	FrameErr  error // first frame-level defect seen (invalid header, masked server frame, ...)
	maskCount uint32
}

func NewStream(rw io.ReadWriter) *Stream { return &Stream{rw: rw} }

func (s *Stream) Write(b []byte) (int, error) {
	s.maskCount++
	m := [4]byte{byte(s.maskCount), byte(s.maskCount >> 8), 0xA5, 0x5A}
	f := AppendFrame(nil, true, OpBinary, &m, b)
	if _, err := s.rw.Write(f); err != nil {
		return 0, err
	}
	return len(b), nil
}

func (s *Stream) Read(p []byte) (int, error) {
	buf := make([]byte, 32*1024)
	for len(s.pending) == 0 {
		n, err := s.rw.Read(buf)
		if n > 0 {
			data := buf[:n]
			if !s.hdrDone {
				s.hdrBuf = append(s.hdrBuf, data...)
				i := bytes.Index(s.hdrBuf, []byte("\r\n\r\n"))
				if i < 0 {
					if err != nil {
						return 0, err
					}
					continue
				}
				s.Upgrade = string(s.hdrBuf[:i+4])
				data = s.hdrBuf[i+4:]
				s.hdrDone = true
			}
			frames, ferr := s.p.Feed(data)
			for _, f := range frames {
				s.Frames++
				if s.FrameErr == nil {
					if verr := f.Header.Validate(); verr != nil {
						s.FrameErr = verr
					} else if f.Masked {
						s.FrameErr = errors.New("wsref: server frame is masked")
					}
				}
				if f.Opcode < 8 {
					s.pending = append(s.pending, f.Payload...)
				}
			}
			if ferr != nil {
				if s.FrameErr == nil {
					s.FrameErr = ferr
				}
				return 0, ferr
			}
		}
		if err != nil && len(s.pending) == 0 {
			return 0, err
		}
	}
	n := copy(p, s.pending)
	s.pending = s.pending[n:]
	return n, nil
}

// PartialFrame reports how many bytes of an incomplete frame are pending.
func (s *Stream) PartialFrame() int { return len(s.p.Pending()) }
