// Package wsref is an independent, from-the-specification implementation of
// the WebSocket base framing protocol (RFC 6455 section 5.2).  It never
// imports lal.
//
//	 0                   1                   2                   3
//	 0 1 2 3 4 5 6 7 8 9 0 1 2 3 4 5 6 7 8 9 0 1 2 3 4 5 6 7 8 9 0 1
//	+-+-+-+-+-------+-+-------------+-------------------------------+
//	|F|R|R|R| opcode|M| Payload len |    Extended payload length    |
//	|I|S|S|S|  (4)  |A|     (7)     |             (16/64)           |
//	|N|V|V|V|       |S|             |   (if payload len==126/127)   |
//	| |1|2|3|       |K|             |                               |
//	+-+-+-+-+-------+-+-------------+ - - - - - - - - - - - - - - - +
//	|     Extended payload length continued, if payload len == 127  |
//	+ - - - - - - - - - - - - - - - +-------------------------------+
//	|                               |Masking-key, if MASK set to 1  |
//	+-------------------------------+-------------------------------+
//	| Masking-key (continued)       |          Payload Data         |
//
// Payload length: 0-125 in the 7-bit field; 126 = the following 2 bytes are a
// 16-bit unsigned length; 127 = the following 8 bytes are a 64-bit unsigned
// length whose most significant bit MUST be 0.  "The minimal number of bytes
// MUST be used to encode the length."  Multi-byte lengths are in network byte
// order.  The masking key is 4 bytes taken as they appear on the wire; octet i
// of the payload is XORed with key[i mod 4].
//
// Like flvref the parser is descriptive: it returns each frame with every
// header field as found (LenForm tells which of the three length encodings
// was used) and Frame.Validate applies the MUST rules.  Parse / Parser consume
// as many complete frames as the input holds and report the remainder.
package wsref

import (
	"encoding/binary"
	"errors"
	"fmt"
)

const (
	OpContinuation = 0x0
	OpText         = 0x1
	OpBinary       = 0x2
	OpClose        = 0x8
	OpPing         = 0x9
	OpPong         = 0xA
)

// Header is a decoded frame header.
type Header struct {
	Fin              bool
	Rsv1, Rsv2, Rsv3 bool
	Opcode           uint8
	Masked           bool
	MaskKey          [4]byte // wire order
	Len7             uint8   // the 7-bit field as found (0..127)
	LenForm          int     // 7, 16 or 64: which encoding carried the length
	PayloadLen       uint64  // the declared payload length
	HeaderSize       int     // bytes occupied by the header (2..14)
}

// Frame is one complete frame.
type Frame struct {
	Header
	Payload []byte // unmasked payload (a private copy when the frame was masked; else aliases the input for Parse, private for Parser)
	Offset  int    // byte offset of the frame's first byte
}

// ErrShort: the input ends before the unit is complete (not a format error).
var ErrShort = errors.New("wsref: need more bytes")

// MinimalLenForm returns the encoding RFC 6455 requires for a payload of n
// bytes: 7 for 0..125, 16 for 126..65535, 64 above.
func MinimalLenForm(n uint64) int {
	switch {
	case n <= 125:
		return 7
	case n <= 0xFFFF:
		return 16
	default:
		return 64
	}
}

// Validate applies the MUST rules of section 5.2 that concern a single frame:
// reserved bits zero (no extension negotiated), minimal length encoding, the
// most significant bit of a 64-bit length zero, a known opcode, and control
// frames (opcode >= 8) short (<= 125) and unfragmented.
func (h Header) Validate() error {
	if h.Rsv1 || h.Rsv2 || h.Rsv3 {
		return fmt.Errorf("ws frame: reserved bit set (rsv1=%v rsv2=%v rsv3=%v)", h.Rsv1, h.Rsv2, h.Rsv3)
	}
	switch h.Opcode {
	case OpContinuation, OpText, OpBinary, OpClose, OpPing, OpPong:
	default:
		return fmt.Errorf("ws frame: reserved opcode %#x", h.Opcode)
	}
	if h.LenForm == 64 && h.PayloadLen>>63 != 0 {
		return fmt.Errorf("ws frame: most significant bit of the 64-bit length is set")
	}
	if want := MinimalLenForm(h.PayloadLen); h.LenForm != want {
		return fmt.Errorf("ws frame: payload length %d carried in the %d-bit form, the minimal form is %d-bit", h.PayloadLen, h.LenForm, want)
	}
	if h.Opcode >= 8 {
		if !h.Fin {
			return fmt.Errorf("ws frame: fragmented control frame (opcode %#x)", h.Opcode)
		}
		if h.PayloadLen > 125 {
			return fmt.Errorf("ws frame: control frame with %d payload bytes", h.PayloadLen)
		}
	}
	return nil
}

// ParseHeader decodes one frame header from the front of b.  It returns
// ErrShort when the header is incomplete.  The payload is not touched, so
// headers declaring lengths far beyond len(b) can be examined.
func ParseHeader(b []byte) (Header, error) {
	var h Header
	if len(b) < 2 {
		return h, ErrShort
	}
	h.Fin = b[0]&0x80 != 0
	h.Rsv1 = b[0]&0x40 != 0
	h.Rsv2 = b[0]&0x20 != 0
	h.Rsv3 = b[0]&0x10 != 0
	h.Opcode = b[0] & 0x0F
	h.Masked = b[1]&0x80 != 0
	h.Len7 = b[1] & 0x7F
	n := 2
	switch h.Len7 {
	case 126:
		if len(b) < n+2 {
			return h, ErrShort
		}
		h.LenForm = 16
		h.PayloadLen = uint64(binary.BigEndian.Uint16(b[n:]))
		n += 2
	case 127:
		if len(b) < n+8 {
			return h, ErrShort
		}
		h.LenForm = 64
		h.PayloadLen = binary.BigEndian.Uint64(b[n:])
		n += 8
	default:
		h.LenForm = 7
		h.PayloadLen = uint64(h.Len7)
	}
	if h.Masked {
		if len(b) < n+4 {
			return h, ErrShort
		}
		copy(h.MaskKey[:], b[n:n+4])
		n += 4
	}
	h.HeaderSize = n
	return h, nil
}

// Parse decodes every complete frame at the front of b and returns the
// incomplete remainder.  err is non-nil only when a header declares a length
// this implementation refuses to wait for (64-bit length with the top bit
// set, which RFC 6455 forbids): framing cannot be recovered after that.
func Parse(b []byte) (frames []Frame, rest []byte, err error) {
	off := 0
	for {
		r := b[off:]
		h, herr := ParseHeader(r)
		if herr != nil {
			return frames, r, nil
		}
		if h.PayloadLen>>63 != 0 {
			return frames, r, fmt.Errorf("ws frame @%d: 64-bit payload length %#x has its most significant bit set", off, h.PayloadLen)
		}
		if uint64(len(r)-h.HeaderSize) < h.PayloadLen {
			return frames, r, nil
		}
		end := h.HeaderSize + int(h.PayloadLen)
		p := r[h.HeaderSize:end:end]
		if h.Masked {
			q := make([]byte, len(p))
			for i := range p {
				q[i] = p[i] ^ h.MaskKey[i&3]
			}
			p = q
		}
		frames = append(frames, Frame{Header: h, Payload: p, Offset: off})
		off += end
	}
}

// Parser is the incremental form: Feed it what a WebSocket peer receives
// after the HTTP upgrade response, in any fragmentation.
//
//	var p wsref.Parser
//	frames, err := p.Feed(chunk) // frames completed by this chunk (Payload is a private copy)
//	p.Pending()                  // bytes of an incomplete frame
type Parser struct {
	buf      []byte
	consumed int
	nframes  int
}

func (p *Parser) Feed(b []byte) ([]Frame, error) {
	p.buf = append(p.buf, b...)
	frames, rest, err := Parse(p.buf)
	for i := range frames {
		if !frames[i].Masked {
			frames[i].Payload = append([]byte(nil), frames[i].Payload...)
		}
		frames[i].Offset += p.consumed
	}
	p.consumed += len(p.buf) - len(rest)
	p.nframes += len(frames)
	p.buf = append(p.buf[:0], rest...)
	return frames, err
}

// Pending returns the bytes received that do not yet form a complete frame.
func (p *Parser) Pending() []byte { return p.buf }

// Consumed is the number of bytes turned into frames so far.
func (p *Parser) Consumed() int { return p.consumed }

// FrameCount is the number of frames returned so far.
func (p *Parser) FrameCount() int { return p.nframes }

// Payloads concatenates the payloads of data frames (binary, text,
// continuation) in order — the byte stream a WebSocket-FLV player hands to its
// demuxer.  Control frames are skipped.
func Payloads(frames []Frame) []byte {
	var out []byte
	for _, f := range frames {
		if f.Opcode < 8 {
			out = append(out, f.Payload...)
		}
	}
	return out
}

// ---------------------------------------------------------------------------
// builder

// AppendFrame appends one frame using the minimal length encoding.  When mask
// is non-nil the frame is masked with that key (as a client must).
func AppendFrame(dst []byte, fin bool, opcode uint8, mask *[4]byte, payload []byte) []byte {
	return AppendFrameForm(dst, fin, opcode, mask, payload, MinimalLenForm(uint64(len(payload))))
}

// AppendFrameForm is AppendFrame with an explicit length encoding (7, 16 or
// 64), so that non-minimal (invalid) encodings can be produced for hostile
// input.  It panics if the payload does not fit the requested form.
func AppendFrameForm(dst []byte, fin bool, opcode uint8, mask *[4]byte, payload []byte, form int) []byte {
	b0 := opcode & 0x0F
	if fin {
		b0 |= 0x80
	}
	var b1 byte
	if mask != nil {
		b1 = 0x80
	}
	n := uint64(len(payload))
	switch form {
	case 7:
		if n > 125 {
			panic("wsref.AppendFrameForm: payload does not fit the 7-bit form")
		}
		dst = append(dst, b0, b1|byte(n))
	case 16:
		if n > 0xFFFF {
			panic("wsref.AppendFrameForm: payload does not fit the 16-bit form")
		}
		dst = append(dst, b0, b1|126, byte(n>>8), byte(n))
	case 64:
		dst = append(dst, b0, b1|127,
			byte(n>>56), byte(n>>48), byte(n>>40), byte(n>>32), byte(n>>24), byte(n>>16), byte(n>>8), byte(n))
	default:
		panic("wsref.AppendFrameForm: form must be 7, 16 or 64")
	}
	if mask == nil {
		return append(dst, payload...)
	}
	dst = append(dst, mask[:]...)
	for i, c := range payload {
		dst = append(dst, c^mask[i&3])
	}
	return dst
}
