package wsref

import (
	"bytes"
	"testing"
)

// Vectors from RFC 6455 section 5.7.
func TestRFCExamples(t *testing.T) {
	// single-frame unmasked text "Hello"
	fr, rest, err := Parse([]byte{0x81, 0x05, 0x48, 0x65, 0x6c, 0x6c, 0x6f})
	if err != nil || len(rest) != 0 || len(fr) != 1 || !fr[0].Fin || fr[0].Opcode != OpText || fr[0].Masked || string(fr[0].Payload) != "Hello" || fr[0].LenForm != 7 {
		t.Fatalf("unmasked hello: %+v rest=%v err=%v", fr, rest, err)
	}
	// single-frame masked text "Hello"
	fr, rest, err = Parse([]byte{0x81, 0x85, 0x37, 0xfa, 0x21, 0x3d, 0x7f, 0x9f, 0x4d, 0x51, 0x58})
	if err != nil || len(rest) != 0 || len(fr) != 1 || !fr[0].Masked || string(fr[0].Payload) != "Hello" || fr[0].MaskKey != [4]byte{0x37, 0xfa, 0x21, 0x3d} {
		t.Fatalf("masked hello: %+v rest=%v err=%v", fr, rest, err)
	}
	// fragmented unmasked text: "Hel" + "lo"
	fr, _, _ = Parse([]byte{0x01, 0x03, 0x48, 0x65, 0x6c, 0x80, 0x02, 0x6c, 0x6f})
	if len(fr) != 2 || fr[0].Fin || fr[0].Opcode != OpText || !fr[1].Fin || fr[1].Opcode != OpContinuation || string(Payloads(fr)) != "Hello" {
		t.Fatalf("fragmented: %+v", fr)
	}
	// 256 bytes binary unmasked: 0x82 0x7E 0x0100
	b := append([]byte{0x82, 0x7E, 0x01, 0x00}, make([]byte, 256)...)
	fr, rest, _ = Parse(b)
	if len(fr) != 1 || len(rest) != 0 || fr[0].LenForm != 16 || fr[0].PayloadLen != 256 || fr[0].Opcode != OpBinary || fr[0].Validate() != nil {
		t.Fatalf("256: %+v", fr)
	}
	// 64KiB binary unmasked: 0x82 0x7F 0x0000000000010000
	b = append([]byte{0x82, 0x7F, 0, 0, 0, 0, 0, 1, 0, 0}, make([]byte, 65536)...)
	fr, rest, _ = Parse(b)
	if len(fr) != 1 || len(rest) != 0 || fr[0].LenForm != 64 || fr[0].PayloadLen != 65536 || fr[0].Validate() != nil {
		t.Fatalf("64k: %+v", fr[0].Header)
	}
	// incomplete: everything but the last byte is left over
	fr, rest, _ = Parse(b[:len(b)-1])
	if len(fr) != 0 || len(rest) != len(b)-1 {
		t.Fatalf("incomplete: %d frames, %d rest", len(fr), len(rest))
	}
}

func TestValidateAndBuilder(t *testing.T) {
	// non-minimal encodings are flagged
	for _, c := range []struct {
		n, form int
		ok      bool
	}{{0, 7, true}, {125, 7, true}, {125, 16, false}, {126, 16, true}, {65535, 16, true}, {65535, 64, false}, {65536, 64, true}, {5, 64, false}} {
		b := AppendFrameForm(nil, true, OpBinary, nil, make([]byte, c.n), c.form)
		fr, rest, err := Parse(b)
		if err != nil || len(rest) != 0 || len(fr) != 1 || fr[0].LenForm != c.form || int(fr[0].PayloadLen) != c.n {
			t.Fatalf("%+v: parse %+v", c, fr)
		}
		if (fr[0].Validate() == nil) != c.ok {
			t.Fatalf("%+v: validate = %v", c, fr[0].Validate())
		}
	}
	// builder / incremental parser round trip with arbitrary fragmentation
	var wire []byte
	var want [][]byte
	key := [4]byte{1, 2, 3, 4}
	for i, n := range []int{0, 1, 125, 126, 127, 65535, 65536, 70000} {
		p := make([]byte, n)
		for j := range p {
			p[j] = byte(i*31 + j)
		}
		want = append(want, p)
		if i%2 == 0 {
			wire = AppendFrame(wire, true, OpBinary, nil, p)
		} else {
			wire = AppendFrame(wire, true, OpBinary, &key, p)
		}
	}
	var ps Parser
	var got []Frame
	for off, step := 0, 1; off < len(wire); step = step*3 + 1 {
		end := off + step
		if end > len(wire) {
			end = len(wire)
		}
		fr, err := ps.Feed(wire[off:end])
		if err != nil {
			t.Fatal(err)
		}
		got = append(got, fr...)
		off = end
	}
	if len(got) != len(want) || len(ps.Pending()) != 0 || ps.Consumed() != len(wire) {
		t.Fatalf("got %d frames, pending %d", len(got), len(ps.Pending()))
	}
	for i := range want {
		if !bytes.Equal(got[i].Payload, want[i]) || got[i].Validate() != nil {
			t.Fatalf("frame %d differs (%v)", i, got[i].Validate())
		}
	}
	// reserved bits, reserved opcode, top bit of the 64-bit length
	if h, _ := ParseHeader([]byte{0xC2, 0x00}); h.Validate() == nil {
		t.Fatal("rsv1 accepted")
	}
	if h, _ := ParseHeader([]byte{0x83, 0x00}); h.Validate() == nil {
		t.Fatal("opcode 3 accepted")
	}
	if _, _, err := Parse([]byte{0x82, 0x7F, 0x80, 0, 0, 0, 0, 0, 0, 0}); err == nil {
		t.Fatal("msb of 64-bit length accepted")
	}
	if _, err := ParseHeader([]byte{0x82, 0x7E, 0x01}); err != ErrShort {
		t.Fatal("short header not reported")
	}
}
