// Package m3u8ref is an independent parser for HLS *media* playlists written
// from RFC 8216 (section 4.1 line structure, 4.3.1 basic tags, 4.3.2 media
// segment tags, 4.3.3 media playlist tags).  It never imports lal.
//
// The parser answers one question for the checks: is this byte string a
// complete, well-formed media playlist — and if so, what does it list?  A
// reader that fetches the file at an arbitrary instant must never see a
// truncated or structurally broken playlist, so everything that makes the
// text unusable as a playlist is an error:
//
//   - the first line is not #EXTM3U (4.3.1.1);
//   - the last line is not terminated (4.1: lines are terminated by LF or
//     CRLF) — this is how a partially written file shows;
//   - EXT-X-TARGETDURATION is missing, duplicated or not a decimal-integer
//     (4.3.3.1: REQUIRED, MUST NOT appear more than once);
//   - EXT-X-VERSION / EXT-X-MEDIA-SEQUENCE duplicated or malformed, or the
//     media sequence tag placed after the first media segment (4.3.3.2);
//   - an EXTINF whose duration is not a decimal number, a floating-point
//     duration in a playlist whose version is below 3 (4.3.2.1), an EXTINF
//     that is not followed by a URI line, or a URI line without EXTINF;
//   - master-playlist tags in a media playlist (4.3.4: MUST NOT);
//   - NUL or other C0 control characters except CR/LF (4.1).
//
// Unknown #EXT tags are collected in Other and otherwise ignored (6.3.1:
// clients MUST ignore unrecognised tags); lines starting with '#' that are not
// tags are comments.
package m3u8ref

import (
	"fmt"
	"strings"
)

// Segment is one media segment of the playlist.
type Segment struct {
	URI           string
	DurationText  string // the decimal text of the EXTINF duration, verbatim
	DurationMs    int64  // duration in milliseconds, truncated after the third decimal
	DurationExact bool   // false when digits beyond milliseconds were dropped
	Title         string
	Discontinuity bool  // an EXT-X-DISCONTINUITY tag applies to this segment
	Seq           int64 // media sequence number of this segment
	Line          int   // 1-based line of the URI
}

// Seconds returns the duration as a float (for messages only).
func (s Segment) Seconds() float64 { return float64(s.DurationMs) / 1000 }

// RoundedLow / RoundedHigh bracket "the duration rounded to the nearest
// integer" (RFC 8216 4.3.3.1).  They differ only when the duration lies exactly
// half-way between two integers, where the RFC does not say which way to round:
// RoundedLow rounds the tie down, RoundedHigh rounds it up.
func (s Segment) RoundedLow() int64 {
	// ties down: x.500 -> x ; anything above -> x+1
	if !s.DurationExact {
		// there were non-zero digits beyond the millisecond: strictly above DurationMs
		return (s.DurationMs + 500) / 1000
	}
	return (s.DurationMs + 499) / 1000
}

func (s Segment) RoundedHigh() int64 { return (s.DurationMs + 500) / 1000 }

// Playlist is a parsed media playlist.
type Playlist struct {
	Version           int  // 1 when the tag is absent
	HasVersion        bool
	TargetDuration    int64
	MediaSequence     int64 // 0 when the tag is absent (4.3.3.2)
	HasMediaSequence  bool
	Segments          []Segment
	EndList           bool // EXT-X-ENDLIST present
	EndListIsLastLine bool // ... and it is the last non-blank line
	Other             []string // unrecognised #EXT tags, verbatim
	Lines             int
}

// URIs lists the segment URIs in order.
func (p *Playlist) URIs() []string {
	out := make([]string, len(p.Segments))
	for i, s := range p.Segments {
		out[i] = s.URI
	}
	return out
}

// Error describes why the text is not a complete well-formed media playlist.
type Error struct {
	Kind string // stable, e.g. "no-extm3u", "unterminated-last-line"
	Line int    // 1-based, 0 when not tied to a line
	Msg  string
}

func (e *Error) Error() string {
	if e.Line > 0 {
		return fmt.Sprintf("%s (line %d): %s", e.Kind, e.Line, e.Msg)
	}
	return fmt.Sprintf("%s: %s", e.Kind, e.Msg)
}

func perr(kind string, line int, f string, a ...interface{}) *Error {
	return &Error{Kind: kind, Line: line, Msg: fmt.Sprintf(f, a...)}
}

var masterOnly = []string{"#EXT-X-STREAM-INF", "#EXT-X-MEDIA:", "#EXT-X-I-FRAME-STREAM-INF", "#EXT-X-SESSION-DATA", "#EXT-X-SESSION-KEY"}

// parseUint parses a decimal-integer (4.2: characters 0-9, 1 to 20 digits).
func parseUint(s string) (int64, bool) {
	if len(s) == 0 || len(s) > 20 {
		return 0, false
	}
	var v int64
	for _, c := range []byte(s) {
		if c < '0' || c > '9' {
			return 0, false
		}
		if v > (1<<62)/10 {
			return 0, false
		}
		v = v*10 + int64(c-'0')
	}
	return v, true
}

// parseDuration parses a decimal-integer or decimal-floating-point (4.2) into
// milliseconds.
func parseDuration(s string) (ms int64, exact, isFloat, ok bool) {
	if s == "" {
		return 0, false, false, false
	}
	intPart, frac := s, ""
	if i := strings.IndexByte(s, '.'); i >= 0 {
		intPart, frac = s[:i], s[i+1:]
		isFloat = true
		if frac == "" || intPart == "" {
			return 0, false, true, false
		}
	}
	iv, good := parseUint(intPart)
	if !good || iv > 1<<40 {
		return 0, false, isFloat, false
	}
	exact = true
	fv := int64(0)
	for i, c := range []byte(frac) {
		if c < '0' || c > '9' {
			return 0, false, isFloat, false
		}
		if i < 3 {
			fv = fv*10 + int64(c-'0')
		} else if c != '0' {
			exact = false
		}
	}
	for i := len(frac); i < 3; i++ {
		fv *= 10
	}
	return iv*1000 + fv, exact, isFloat, true
}

// Parse parses data as a media playlist.
func Parse(data []byte) (*Playlist, error) {
	if len(data) == 0 {
		return nil, perr("empty", 0, "the file is empty")
	}
	for i, c := range data {
		if c < 0x20 && c != '\n' && c != '\r' && c != '\t' {
			return nil, perr("control-character", 1+strings.Count(string(data[:i]), "\n"), "byte %#x at offset %d", c, i)
		}
	}
	if data[len(data)-1] != '\n' {
		return nil, perr("unterminated-last-line", 1+strings.Count(string(data), "\n"), "the text does not end with a line terminator (truncated file?)")
	}
	raw := strings.Split(string(data[:len(data)-1]), "\n")
	p := &Playlist{Version: 1, Lines: len(raw)}
	haveTarget := false
	var pendingInf *Segment
	pendingDisc := false
	lastNonBlank := ""
	floatLine := 0
	for idx, ln := range raw {
		n := idx + 1
		ln = strings.TrimSuffix(ln, "\r")
		if strings.ContainsRune(ln, '\r') {
			return nil, perr("stray-cr", n, "carriage return inside a line")
		}
		if idx == 0 {
			if ln != "#EXTM3U" {
				return nil, perr("no-extm3u", 1, "first line is %q, not #EXTM3U", clip(ln))
			}
			lastNonBlank = ln
			continue
		}
		if strings.TrimSpace(ln) == "" {
			continue // blank lines are ignored
		}
		lastNonBlank = ln
		if !strings.HasPrefix(ln, "#") {
			// URI line
			if pendingInf == nil {
				return nil, perr("uri-without-extinf", n, "URI %q is not preceded by #EXTINF", clip(ln))
			}
			if ln != strings.TrimSpace(ln) {
				return nil, perr("uri-whitespace", n, "URI line %q has leading/trailing whitespace", clip(ln))
			}
			seg := *pendingInf
			seg.URI = ln
			seg.Discontinuity = pendingDisc
			seg.Seq = p.MediaSequence + int64(len(p.Segments))
			seg.Line = n
			p.Segments = append(p.Segments, seg)
			pendingInf, pendingDisc = nil, false
			continue
		}
		if !strings.HasPrefix(ln, "#EXT") {
			continue // comment
		}
		tag, val := ln, ""
		hasVal := false
		if i := strings.IndexByte(ln, ':'); i >= 0 {
			tag, val, hasVal = ln[:i], ln[i+1:], true
		}
		for _, m := range masterOnly {
			if strings.HasPrefix(ln, m) {
				return nil, perr("master-tag-in-media-playlist", n, "%s", clip(ln))
			}
		}
		switch tag {
		case "#EXTM3U":
			return nil, perr("duplicate-extm3u", n, "#EXTM3U appears again")
		case "#EXT-X-VERSION":
			v, ok := parseUint(val)
			if !hasVal || !ok {
				return nil, perr("bad-version", n, "%q", clip(ln))
			}
			if p.HasVersion {
				return nil, perr("duplicate-version", n, "EXT-X-VERSION appears more than once")
			}
			p.HasVersion, p.Version = true, int(v)
		case "#EXT-X-TARGETDURATION":
			v, ok := parseUint(val)
			if !hasVal || !ok {
				return nil, perr("bad-targetduration", n, "%q is not a decimal-integer", clip(ln))
			}
			if haveTarget {
				return nil, perr("duplicate-targetduration", n, "EXT-X-TARGETDURATION appears more than once")
			}
			haveTarget, p.TargetDuration = true, v
		case "#EXT-X-MEDIA-SEQUENCE":
			v, ok := parseUint(val)
			if !hasVal || !ok {
				return nil, perr("bad-media-sequence", n, "%q is not a decimal-integer", clip(ln))
			}
			if p.HasMediaSequence {
				return nil, perr("duplicate-media-sequence", n, "EXT-X-MEDIA-SEQUENCE appears more than once")
			}
			if len(p.Segments) > 0 || pendingInf != nil {
				return nil, perr("media-sequence-after-segment", n, "EXT-X-MEDIA-SEQUENCE must precede the first media segment")
			}
			p.HasMediaSequence, p.MediaSequence = true, v
		case "#EXT-X-DISCONTINUITY":
			if hasVal {
				return nil, perr("bad-discontinuity", n, "%q", clip(ln))
			}
			pendingDisc = true
		case "#EXTINF":
			if !hasVal {
				return nil, perr("bad-extinf", n, "%q has no duration", clip(ln))
			}
			if pendingInf != nil {
				return nil, perr("extinf-without-uri", n, "previous #EXTINF has no URI line")
			}
			dur, title := val, ""
			if i := strings.IndexByte(val, ','); i >= 0 {
				dur, title = val[:i], val[i+1:]
			}
			ms, exact, isFloat, ok := parseDuration(dur)
			if !ok {
				return nil, perr("bad-extinf", n, "duration %q is not a decimal number", clip(dur))
			}
			if isFloat && floatLine == 0 {
				floatLine = n
			}
			pendingInf = &Segment{DurationText: dur, DurationMs: ms, DurationExact: exact, Title: title}
		case "#EXT-X-ENDLIST":
			if hasVal {
				return nil, perr("bad-endlist", n, "%q", clip(ln))
			}
			p.EndList = true
		default:
			p.Other = append(p.Other, ln)
		}
	}
	if pendingInf != nil {
		return nil, perr("extinf-without-uri", len(raw), "the last #EXTINF has no URI line (truncated file?)")
	}
	if !haveTarget {
		return nil, perr("no-targetduration", 0, "EXT-X-TARGETDURATION is required")
	}
	if floatLine > 0 && p.Version < 3 {
		return nil, perr("float-duration-needs-version-3", floatLine, "floating-point EXTINF in a version %d playlist", p.Version)
	}
	p.EndListIsLastLine = p.EndList && lastNonBlank == "#EXT-X-ENDLIST"
	return p, nil
}

func clip(s string) string {
	if len(s) > 80 {
		return s[:80] + "..."
	}
	return s
}
