package m3u8ref

import "testing"

const good = "#EXTM3U\n#EXT-X-VERSION:3\n#EXT-X-ALLOW-CACHE:NO\n#EXT-X-TARGETDURATION:4\n#EXT-X-MEDIA-SEQUENCE:7\n\n" +
	"#EXT-X-DISCONTINUITY\n#EXTINF:3.500,\na-7.ts\n#EXTINF:3.501,title\na-8.ts\n#EXTINF:2,\na-9.ts\n#EXT-X-ENDLIST\n"

func TestGood(t *testing.T) {
	p, err := Parse([]byte(good))
	if err != nil {
		t.Fatal(err)
	}
	if p.Version != 3 || p.TargetDuration != 4 || p.MediaSequence != 7 || !p.EndList || !p.EndListIsLastLine || len(p.Segments) != 3 {
		t.Fatalf("%+v", p)
	}
	s := p.Segments
	if !s[0].Discontinuity || s[1].Discontinuity || s[0].URI != "a-7.ts" || s[0].Seq != 7 || s[2].Seq != 9 || s[1].Title != "title" {
		t.Fatalf("%+v", s)
	}
	if s[0].DurationMs != 3500 || s[0].RoundedLow() != 3 || s[0].RoundedHigh() != 4 {
		t.Fatalf("tie: %+v %d %d", s[0], s[0].RoundedLow(), s[0].RoundedHigh())
	}
	if s[1].RoundedLow() != 4 || s[1].RoundedHigh() != 4 || s[2].RoundedLow() != 2 || s[2].DurationMs != 2000 {
		t.Fatalf("%+v", s)
	}
	if len(p.Other) != 1 {
		t.Fatalf("other: %v", p.Other)
	}
}

func TestEveryStrictPrefixOfAPlaylistWithPendingSegmentIsRejectedOrShorter(t *testing.T) {
	full, _ := Parse([]byte(good))
	for i := 0; i < len(good); i++ {
		p, err := Parse([]byte(good[:i]))
		if err != nil {
			continue
		}
		// a prefix that parses must end on a line boundary and list a prefix of the segments
		if good[i-1] != '\n' || len(p.Segments) > len(full.Segments) {
			t.Fatalf("prefix %d accepted: %q", i, good[:i])
		}
	}
}

func TestBad(t *testing.T) {
	for kind, txt := range map[string]string{
		"empty":                          "",
		"no-extm3u":                      "#EXT-X-VERSION:3\n#EXTM3U\n#EXT-X-TARGETDURATION:1\n",
		"unterminated-last-line":         "#EXTM3U\n#EXT-X-TARGETDURATION:1",
		"no-targetduration":              "#EXTM3U\n#EXT-X-VERSION:3\n",
		"duplicate-targetduration":       "#EXTM3U\n#EXT-X-TARGETDURATION:1\n#EXT-X-TARGETDURATION:2\n",
		"bad-targetduration":             "#EXTM3U\n#EXT-X-TARGETDURATION:1.5\n",
		"media-sequence-after-segment":   "#EXTM3U\n#EXT-X-TARGETDURATION:1\n#EXTINF:1,\na.ts\n#EXT-X-MEDIA-SEQUENCE:1\n",
		"uri-without-extinf":             "#EXTM3U\n#EXT-X-TARGETDURATION:1\na.ts\n",
		"extinf-without-uri":             "#EXTM3U\n#EXT-X-TARGETDURATION:1\n#EXTINF:1,\n",
		"bad-extinf":                     "#EXTM3U\n#EXT-X-TARGETDURATION:1\n#EXTINF:abc,\na.ts\n",
		"float-duration-needs-version-3": "#EXTM3U\n#EXT-X-TARGETDURATION:1\n#EXTINF:1.0,\na.ts\n",
		"master-tag-in-media-playlist":   "#EXTM3U\n#EXT-X-TARGETDURATION:1\n#EXT-X-STREAM-INF:BANDWIDTH=1\na.m3u8\n",
		"control-character":              "#EXTM3U\n#EXT-X-TARGETDURATION:1\n\x00\n",
	} {
		_, err := Parse([]byte(txt))
		e, ok := err.(*Error)
		if !ok || e.Kind != kind {
			t.Errorf("%s: got %v", kind, err)
		}
	}
}

func TestCRLFAndComments(t *testing.T) {
	p, err := Parse([]byte("#EXTM3U\r\n# a comment\r\n#EXT-X-TARGETDURATION:10\r\n#EXTINF:9,\r\nhttp://x/a.ts\r\n"))
	if err != nil || len(p.Segments) != 1 || p.Segments[0].URI != "http://x/a.ts" || p.MediaSequence != 0 || p.HasMediaSequence {
		t.Fatalf("%v %+v", err, p)
	}
}
