// Package flvref is an independent, from-the-specification implementation of
// the FLV container layer (Adobe "Video File Format Specification" v10.1,
// Annex E: "The FLV File Format"): the 9-byte file header, the
// PreviousTagSize0 back-pointer, and the tag framing (tag type byte, 24-bit
// data size, 24+8-bit timestamp, 24-bit stream id, data, trailing 32-bit
// previous-tag-size).  It never imports lal.
//
// Layout (all integers big-endian):
//
//	FLV header        'F' 'L' 'V'  version(1)  flags(1)  data-offset(4)      = 9 bytes
//	PreviousTagSize0  UI32, always 0
//	repeated:
//	  tag header      type(1) data-size(3) timestamp(3) timestamp-extended(1) stream-id(3) = 11 bytes
//	  data            data-size bytes
//	  PreviousTagSizeN UI32 = 11 + data-size of the tag just before it
//
// The type byte is   reserved(2 bits, 0) | filter(1 bit) | tag type(5 bits);
// the timestamp is   timestamp-extended<<24 | timestamp   (milliseconds).
//
// The parser is *lenient and descriptive*: it returns every field exactly as
// found on the wire (including a non-zero stream id or a wrong trailing size)
// so that an oracle can name what is wrong; Tag.Validate / Header.Validate
// apply the specification's consistency rules.  It is streaming-friendly: all
// entry points consume as many complete units as the input holds and return
// the unconsumed remainder.
package flvref

import (
	"encoding/binary"
	"errors"
	"fmt"
)

const (
	// HeaderSize is the size of the FLV file header proper.
	HeaderSize = 9
	// PreambleSize is the file header plus PreviousTagSize0.
	PreambleSize = HeaderSize + 4
	// TagHeaderSize is the size of the fixed part in front of a tag's data.
	TagHeaderSize = 11
	// PrevTagSizeSize is the size of the back-pointer that follows every tag.
	PrevTagSizeSize = 4
	// MaxDataSize is the largest data size a tag can declare (24 bits).
	MaxDataSize = 1<<24 - 1

	TagTypeAudio  = 8
	TagTypeVideo  = 9
	TagTypeScript = 18
)

// Header is the decoded 9-byte FLV file header plus the back-pointer that
// follows it.
type Header struct {
	Signature        [3]byte // 'F','L','V'
	Version          uint8
	Flags            uint8  // bit 2 = audio present, bit 0 = video present, others reserved (0)
	DataOffset       uint32 // size of this header; 9 for version 1
	PreviousTagSize0 uint32 // always 0
}

func (h Header) HasAudio() bool { return h.Flags&0x04 != 0 }
func (h Header) HasVideo() bool { return h.Flags&0x01 != 0 }

// Validate applies the specification's rules for a version-1 header.
func (h Header) Validate() error {
	if h.Signature != [3]byte{'F', 'L', 'V'} {
		return fmt.Errorf("flv header: signature % x, want 46 4c 56", h.Signature[:])
	}
	if h.Version != 1 {
		return fmt.Errorf("flv header: version %d, want 1", h.Version)
	}
	if h.Flags&^0x05 != 0 {
		return fmt.Errorf("flv header: reserved flag bits set (flags=%#02x)", h.Flags)
	}
	if h.DataOffset != HeaderSize {
		return fmt.Errorf("flv header: data offset %d, want %d", h.DataOffset, HeaderSize)
	}
	if h.PreviousTagSize0 != 0 {
		return fmt.Errorf("flv header: PreviousTagSize0 = %d, want 0", h.PreviousTagSize0)
	}
	return nil
}

// Tag is one decoded FLV tag with every wire field kept as found.
type Tag struct {
	TypeByte     uint8  // the whole first byte: reserved(2) filter(1) type(5)
	DataSize     uint32 // declared 24-bit data size
	Timestamp    uint32 // TimestampExtended<<24 | TimestampLow
	TimestampLow uint32 // the 24-bit field
	TimestampExt uint8  // the extension byte (bits 31..24)
	StreamID     uint32 // 24-bit, always 0
	Data         []byte // DataSize bytes (aliases the input)
	PrevTagSize  uint32 // the UI32 following the data
	Offset       int    // byte offset of the tag's first byte (stream offset for a Parser, input offset for ParseTags)
}

// TagType is the 5-bit tag type of the first byte.
func (t Tag) TagType() uint8 { return t.TypeByte & 0x1F }

// Filtered reports the filter (encryption pre-processing) bit.
func (t Tag) Filtered() bool { return t.TypeByte&0x20 != 0 }

// WireSize is the number of bytes the tag occupies including its trailing
// back-pointer.
func (t Tag) WireSize() int { return TagHeaderSize + int(t.DataSize) + PrevTagSizeSize }

// Validate checks the mutual consistency the container layer demands: data
// size = len(data), zero stream id, trailing size = 11 + data size, and the
// two timestamp fields agreeing with the combined value.  It does not judge
// the tag type (readers skip types they do not know).
func (t Tag) Validate() error {
	if int(t.DataSize) != len(t.Data) {
		return fmt.Errorf("flv tag @%d: data size %d but %d data bytes", t.Offset, t.DataSize, len(t.Data))
	}
	if t.StreamID != 0 {
		return fmt.Errorf("flv tag @%d: stream id %d, want 0", t.Offset, t.StreamID)
	}
	if t.PrevTagSize != TagHeaderSize+t.DataSize {
		return fmt.Errorf("flv tag @%d: trailing previous-tag-size %d, want %d (11 + data size %d)", t.Offset, t.PrevTagSize, TagHeaderSize+t.DataSize, t.DataSize)
	}
	if t.Timestamp != uint32(t.TimestampExt)<<24|t.TimestampLow || t.TimestampLow > 0xFFFFFF {
		return fmt.Errorf("flv tag @%d: timestamp fields inconsistent (low=%#x ext=%#x combined=%#x)", t.Offset, t.TimestampLow, t.TimestampExt, t.Timestamp)
	}
	return nil
}

// ErrShort is returned by ParseHeader when fewer than PreambleSize bytes are
// available; it is not a format error.
var ErrShort = errors.New("flvref: need more bytes")

func be24(b []byte) uint32 { return uint32(b[0])<<16 | uint32(b[1])<<8 | uint32(b[2]) }

// ParseHeader decodes the 9-byte header and PreviousTagSize0 from the front of
// b.  It returns ErrShort when b holds fewer than 13 bytes.  The fields are
// returned as found; call Header.Validate for the rules.  rest is b[13:].
func ParseHeader(b []byte) (h Header, rest []byte, err error) {
	if len(b) < PreambleSize {
		return h, b, ErrShort
	}
	copy(h.Signature[:], b[0:3])
	h.Version = b[3]
	h.Flags = b[4]
	h.DataOffset = binary.BigEndian.Uint32(b[5:9])
	h.PreviousTagSize0 = binary.BigEndian.Uint32(b[9:13])
	return h, b[PreambleSize:], nil
}

// ParseTags decodes every complete tag (header + data + trailing size) at the
// front of b and returns the incomplete remainder.  It never fails: the tag
// framing has no synchronisation pattern, so every byte string is a sequence
// of tags followed by a partial one.  Validate the tags to learn whether the
// sequence is a well-formed one.
func ParseTags(b []byte) (tags []Tag, rest []byte) {
	off := 0
	for {
		r := b[off:]
		if len(r) < TagHeaderSize {
			return tags, r
		}
		size := be24(r[1:4])
		total := TagHeaderSize + int(size) + PrevTagSizeSize
		if len(r) < total {
			return tags, r
		}
		low := be24(r[4:7])
		t := Tag{
			TypeByte:     r[0],
			DataSize:     size,
			TimestampLow: low,
			TimestampExt: r[7],
			Timestamp:    uint32(r[7])<<24 | low,
			StreamID:     be24(r[8:11]),
			Data:         r[TagHeaderSize : TagHeaderSize+int(size) : TagHeaderSize+int(size)],
			PrevTagSize:  binary.BigEndian.Uint32(r[TagHeaderSize+int(size):]),
			Offset:       off,
		}
		tags = append(tags, t)
		off += total
	}
}

// ParseStream decodes a whole FLV byte stream: header, zero back-pointer, then
// all complete tags; rest is the incomplete tail (empty for a stream that ends
// on a tag boundary).  Tag offsets are relative to b.  err is ErrShort when
// even the 13-byte preamble is incomplete.
func ParseStream(b []byte) (h Header, tags []Tag, rest []byte, err error) {
	h, body, err := ParseHeader(b)
	if err != nil {
		return h, nil, b, err
	}
	tags, rest = ParseTags(body)
	for i := range tags {
		tags[i].Offset += PreambleSize
	}
	return h, tags, rest, nil
}

// ValidateStream parses b and applies every container rule: valid header,
// every tag valid, nothing left over.  It returns the decoded content too.
func ValidateStream(b []byte) (Header, []Tag, error) {
	h, tags, rest, err := ParseStream(b)
	if err != nil {
		return h, nil, fmt.Errorf("flv stream: %d bytes is shorter than the %d-byte header + PreviousTagSize0", len(b), PreambleSize)
	}
	if err := h.Validate(); err != nil {
		return h, tags, err
	}
	for _, t := range tags {
		if err := t.Validate(); err != nil {
			return h, tags, err
		}
	}
	if len(rest) != 0 {
		return h, tags, fmt.Errorf("flv stream: %d trailing bytes after %d complete tags do not form a tag", len(rest), len(tags))
	}
	return h, tags, nil
}

// Parser is the incremental form: Feed it the bytes a subscriber receives, in
// any fragmentation, and collect complete tags.
//
//	var p flvref.Parser
//	tags, err := p.Feed(chunk)   // tags completed by this chunk (Data is a private copy)
//	p.Header()                   // the header once HaveHeader()
//	p.Pending()                  // bytes received but not yet forming a complete unit
//
// With Strict set, Feed returns an error as soon as the header or a tag breaks
// a container rule (the offending tag is still returned); parsing can continue
// afterwards, but framing is probably lost.
type Parser struct {
	// NoHeader makes the parser expect bare tags (e.g. a stream joined
	// mid-way or a single packed tag) instead of header + PreviousTagSize0.
	NoHeader bool
	// Strict validates the header and every tag as they complete.
	Strict bool

	buf      []byte
	hdr      Header
	haveHdr  bool
	consumed int // bytes of the stream consumed so far (for Tag.Offset)
	ntags    int
}

// Feed appends b to the pending bytes and returns the tags that are now
// complete.  Returned tags own their Data.
func (p *Parser) Feed(b []byte) ([]Tag, error) {
	p.buf = append(p.buf, b...)
	var firstErr error
	if !p.NoHeader && !p.haveHdr {
		h, rest, err := ParseHeader(p.buf)
		if err != nil {
			return nil, nil // need more
		}
		p.hdr, p.haveHdr = h, true
		p.consumed += PreambleSize
		p.buf = append(p.buf[:0], rest...)
		if p.Strict {
			firstErr = h.Validate()
		}
	}
	tags, rest := ParseTags(p.buf)
	for i := range tags {
		tags[i].Data = append([]byte(nil), tags[i].Data...)
		tags[i].Offset += p.consumed
		if p.Strict && firstErr == nil {
			firstErr = tags[i].Validate()
		}
	}
	p.consumed += len(p.buf) - len(rest)
	p.ntags += len(tags)
	p.buf = append(p.buf[:0], rest...)
	return tags, firstErr
}

// HaveHeader reports whether the 13-byte preamble has been consumed.
func (p *Parser) HaveHeader() bool { return p.haveHdr }

// Header returns the decoded preamble (zero value before HaveHeader).
func (p *Parser) Header() Header { return p.hdr }

// Pending returns the bytes received that do not yet form a complete unit.
func (p *Parser) Pending() []byte { return p.buf }

// Consumed is the number of stream bytes turned into header/tags so far.
func (p *Parser) Consumed() int { return p.consumed }

// TagCount is the number of tags returned so far.
func (p *Parser) TagCount() int { return p.ntags }

// ---------------------------------------------------------------------------
// writer

// AppendHeader appends the 9-byte version-1 header and PreviousTagSize0.
func AppendHeader(dst []byte, hasAudio, hasVideo bool) []byte {
	var flags byte
	if hasAudio {
		flags |= 0x04
	}
	if hasVideo {
		flags |= 0x01
	}
	dst = append(dst, 'F', 'L', 'V', 1, flags, 0, 0, 0, HeaderSize)
	return append(dst, 0, 0, 0, 0)
}

// AppendTag appends one tag (header, data, trailing previous-tag-size) with
// stream id 0.  It panics when data does not fit the 24-bit size field: the
// caller asked for something FLV cannot express.
func AppendTag(dst []byte, typeByte uint8, timestamp uint32, data []byte) []byte {
	if len(data) > MaxDataSize {
		panic(fmt.Sprintf("flvref.AppendTag: %d data bytes do not fit a 24-bit data size", len(data)))
	}
	n := uint32(len(data))
	dst = append(dst,
		typeByte,
		byte(n>>16), byte(n>>8), byte(n),
		byte(timestamp>>16), byte(timestamp>>8), byte(timestamp),
		byte(timestamp>>24),
		0, 0, 0)
	dst = append(dst, data...)
	total := TagHeaderSize + n
	return append(dst, byte(total>>24), byte(total>>16), byte(total>>8), byte(total))
}

// W is a simple tag to be written.
type W struct {
	TypeByte  uint8
	Timestamp uint32
	Data      []byte
}

// BuildStream returns header + PreviousTagSize0 + the tags.
func BuildStream(hasAudio, hasVideo bool, tags []W) []byte {
	out := AppendHeader(nil, hasAudio, hasVideo)
	for _, t := range tags {
		out = AppendTag(out, t.TypeByte, t.Timestamp, t.Data)
	}
	return out
}
