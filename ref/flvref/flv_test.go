package flvref

import (
	"bytes"
	"testing"
)

// A hand-assembled stream: header (audio+video), PreviousTagSize0, a script
// tag of 3 bytes at t=0, a video tag of 2 bytes at t=0x01_000002 (extended
// byte 1, low 24 bits 2).
var vector = []byte{
	'F', 'L', 'V', 0x01, 0x05, 0x00, 0x00, 0x00, 0x09,
	0x00, 0x00, 0x00, 0x00,
	0x12, 0x00, 0x00, 0x03, 0x00, 0x00, 0x00, 0x00, 0x00, 0x00, 0x00, 0xAA, 0xBB, 0xCC, 0x00, 0x00, 0x00, 0x0E,
	0x09, 0x00, 0x00, 0x02, 0x00, 0x00, 0x02, 0x01, 0x00, 0x00, 0x00, 0x17, 0x01, 0x00, 0x00, 0x00, 0x0D,
}

func TestVector(t *testing.T) {
	h, tags, err := ValidateStream(vector)
	if err != nil {
		t.Fatal(err)
	}
	if !h.HasAudio() || !h.HasVideo() || h.Version != 1 || h.DataOffset != 9 {
		t.Fatalf("header %+v", h)
	}
	if len(tags) != 2 {
		t.Fatalf("%d tags", len(tags))
	}
	a, b := tags[0], tags[1]
	if a.TypeByte != 18 || a.TagType() != TagTypeScript || a.DataSize != 3 || a.Timestamp != 0 || !bytes.Equal(a.Data, []byte{0xAA, 0xBB, 0xCC}) || a.PrevTagSize != 14 || a.Offset != 13 {
		t.Fatalf("tag0 %+v", a)
	}
	if b.TypeByte != 9 || b.DataSize != 2 || b.Timestamp != 0x01000002 || b.TimestampExt != 1 || b.TimestampLow != 2 || !bytes.Equal(b.Data, []byte{0x17, 0x01}) || b.PrevTagSize != 13 || b.Offset != 13+18 {
		t.Fatalf("tag1 %+v", b)
	}
	// the writer reproduces the vector byte for byte
	out := BuildStream(true, true, []W{{18, 0, []byte{0xAA, 0xBB, 0xCC}}, {9, 0x01000002, []byte{0x17, 0x01}}})
	if !bytes.Equal(out, vector) {
		t.Fatalf("writer output differs:\n% x\n% x", out, vector)
	}
}

func TestIncrementalAndLeftover(t *testing.T) {
	for cut := 0; cut <= len(vector); cut++ {
		var p Parser
		p.Strict = true
		t1, err1 := p.Feed(vector[:cut])
		t2, err2 := p.Feed(vector[cut:])
		if err1 != nil || err2 != nil {
			t.Fatalf("cut %d: %v %v", cut, err1, err2)
		}
		all := append(t1, t2...)
		if len(all) != 2 || len(p.Pending()) != 0 || p.Consumed() != len(vector) || !p.HaveHeader() || p.TagCount() != 2 {
			t.Fatalf("cut %d: %d tags, pending %d", cut, len(all), len(p.Pending()))
		}
		if all[1].Timestamp != 0x01000002 || all[1].Offset != 31 {
			t.Fatalf("cut %d: %+v", cut, all[1])
		}
	}
	// leftover is reported, not swallowed
	_, tags, rest, err := ParseStream(vector[:len(vector)-1])
	if err != nil || len(tags) != 1 || len(rest) != 16 {
		t.Fatalf("tags=%d rest=%d err=%v", len(tags), len(rest), err)
	}
	if _, _, _, err := ParseStream(vector[:12]); err != ErrShort {
		t.Fatalf("short preamble: %v", err)
	}
}

func TestValidateFlagsEachRule(t *testing.T) {
	mut := func(i int, v byte) []byte {
		b := append([]byte(nil), vector...)
		b[i] = v
		return b
	}
	for name, b := range map[string][]byte{
		"signature":     mut(0, 'G'),
		"version":       mut(3, 2),
		"reserved flag": mut(4, 0x0D),
		"data offset":   mut(8, 13),
		"prev0":         mut(12, 1),
		"stream id":     mut(13+10, 1),
		"prev size":     mut(13+17, 0x0F),
		"prev size 2":   mut(len(vector)-1, 0x02),
	} {
		if _, _, err := ValidateStream(b); err == nil {
			t.Fatalf("%s: corruption accepted", name)
		}
	}
	// bare tags
	p := Parser{NoHeader: true, Strict: true}
	tags, err := p.Feed(AppendTag(nil, 8, 0xFFFFFFFF, nil))
	if err != nil || len(tags) != 1 || tags[0].Timestamp != 0xFFFFFFFF || tags[0].DataSize != 0 || tags[0].PrevTagSize != 11 {
		t.Fatalf("%+v %v", tags, err)
	}
}
