package codecref

import (
	"bytes"
	"encoding/hex"
	"reflect"
	"testing"
)

func unhex(s string) []byte {
	b, err := hex.DecodeString(s)
	if err != nil {
		panic(err)
	}
	return b
}

// Real-world parameter sets (x264 / hardware encoders) with the sizes their
// decoders report.
func TestH264RealVectors(t *testing.T) {
	for _, v := range []struct {
		hex  string
		w, h uint32
	}{
		{"67640020acd940c029b011000003000100000300320f183196", 768, 320},
		{"67640020ad84010c20086100430802184010c200843b502803cd3701010140000003004000000ca1", 1280, 960},
	} {
		nal := unhex(v.hex)
		s, err := ParseH264SPS(nal)
		if err != nil {
			t.Fatalf("%s: %v", v.hex, err)
		}
		w, h := s.DisplaySize()
		if w != v.w || h != v.h {
			t.Fatalf("%s: got %dx%d want %dx%d (%+v)", v.hex, w, h, v.w, v.h, s)
		}
		// re-encoding the decoded parameters reproduces the NAL unit byte for byte
		out, ew, eh, err := s.EncodeNAL()
		if err != nil {
			t.Fatal(err)
		}
		if !bytes.Equal(out, nal) || ew != v.w || eh != v.h {
			t.Fatalf("re-encode differs:\n in  %x\n out %x", nal, out)
		}
	}
}

func TestH264ModelRoundTrip(t *testing.T) {
	s := &H264SPS{NalRefIdc: 3, ProfileIdc: 244, ConstraintFlags: 0x40, LevelIdc: 51, SpsID: 31, ChromaFormatIdc: 3, SeparateColourPlane: true,
		BitDepthLumaMinus8: 2, BitDepthChromaMinus8: 6, QpprimeYZeroBypass: true, ScalingMatrixPresent: true,
		ScalingLists:          []H264ScalingList{{Present: true, Deltas: []int32{-8}}, {}, {Present: true, Deltas: []int32{1, -2, 3, 127, -128}}, {}, {}, {}, {Present: true, Deltas: []int32{5, -13}}, {}, {}, {}, {}, {Present: true}},
		Log2MaxFrameNumMinus4: 12, PocType: 1, DeltaPicOrderAlwaysZero: true, OffsetForNonRefPic: -2147483647, OffsetForTopToBottom: 2147483647,
		OffsetForRefFrame: []int32{0, 1, -1, 65536, -65536}, MaxNumRefFrames: 16, PicWidthInMbsMinus1: 119, PicHeightInMapUnitsMinus1: 33,
		FrameMbsOnly: false, MbAdaptiveFrameField: true, Direct8x8Inference: true, FrameCropping: true, CropLeft: 1, CropRight: 2, CropTop: 3, CropBottom: 4,
		VUI: &H264VUI{AspectRatioInfoPresent: true, AspectRatioIdc: 255, SarWidth: 0, SarHeight: 1, TimingInfoPresent: true, NumUnitsInTick: 1, TimeScale: 50,
			NalHrd: &H264HRD{BitRateValM1: []uint32{0, 9}, CpbSizeValM1: []uint32{3, 4}, Cbr: []bool{true, false}, InitialDelayLenM1: 23}, BitstreamRestriction: true, MaxDecFrameBuffering: 4}}
	nal, w, h, err := s.EncodeNAL()
	if err != nil {
		t.Fatal(err)
	}
	// 4:4:4 with separate planes, field coding: CropUnitX = 1, CropUnitY = 2
	if w != 1920-3 || h != 2*34*16-2*7 {
		t.Fatalf("size %dx%d", w, h)
	}
	if !HasEPB(nal) || !WellFormedNAL(nal) {
		t.Fatalf("expected emulation prevention in %x", nal)
	}
	back, err := ParseH264SPS(nal)
	if err != nil {
		t.Fatal(err)
	}
	// the decoder records the deltas actually present in the stream
	s.ScalingLists[0].Deltas = []int32{-8}
	s.ScalingLists[11].Deltas = make([]int32, 64)
	want := *s
	got := *back
	// compare through re-encoding (scaling list padding differs in representation only)
	a, _, _, _ := want.EncodeNAL()
	b, _, _, _ := got.EncodeNAL()
	if !bytes.Equal(a, b) || !bytes.Equal(a, nal) {
		t.Fatalf("round trip differs\n%x\n%x", a, b)
	}
	if !reflect.DeepEqual(got.OffsetForRefFrame, want.OffsetForRefFrame) || got.OffsetForNonRefPic != want.OffsetForNonRefPic {
		t.Fatalf("offsets differ")
	}
}

func TestCropUnits(t *testing.T) {
	for _, c := range []struct {
		profile uint8
		cfi     uint32
		sep     bool
		fmo     bool
		x, y    uint32
	}{
		{66, 0, false, true, 2, 2}, {77, 3, false, false, 2, 4}, // no chroma info: inferred 4:2:0
		{100, 0, false, true, 1, 1}, {100, 0, false, false, 1, 2},
		{100, 1, false, true, 2, 2}, {100, 1, false, false, 2, 4},
		{122, 2, false, true, 2, 1}, {122, 2, false, false, 2, 2},
		{244, 3, false, true, 1, 1}, {244, 3, false, false, 1, 2},
		{244, 3, true, true, 1, 1}, {244, 3, true, false, 1, 2},
	} {
		s := &H264SPS{ProfileIdc: c.profile, ChromaFormatIdc: c.cfi, SeparateColourPlane: c.sep, FrameMbsOnly: c.fmo}
		x, y := s.CropUnits()
		if x != c.x || y != c.y {
			t.Fatalf("%+v: got %d,%d", c, x, y)
		}
	}
}

func TestEmulationPrevention(t *testing.T) {
	for _, c := range []struct{ in, out string }{
		{"000000", "0000030003"}, {"000001", "00000301"}, {"000002", "00000302"}, {"000003", "00000303"}, {"000004", "000004"},
		{"00000000", "000003000003"}, {"0000000001", "00000300000301"}, {"aa0000", "aa000003"}, {"00", "0003"},
	} {
		got := EmulationPrevent(unhex(c.in))
		if !bytes.Equal(got, unhex(c.out)) {
			t.Fatalf("%s: got %x want %s", c.in, got, c.out)
		}
		// (an RBSP ending in a single zero byte cannot occur; the final 03 is then not an EPB pattern)
		endsSingleZero := bytes.HasSuffix(unhex(c.in), []byte{0}) && !bytes.HasSuffix(got, []byte{0, 0, 3})
		if !endsSingleZero && !bytes.Equal(StripEmulationPrevention(got), unhex(c.in)) {
			t.Fatalf("%s: strip failed", c.in)
		}
	}
	for seed := uint32(0); seed < 200; seed++ {
		for _, n := range []int{1, 2, 3, 4, 5, 17, 300} {
			nal := FillNAL([]byte{0x68}, seed, n, 500)
			if len(nal) != n || !WellFormedNAL(nal) {
				t.Fatalf("FillNAL(%d,%d) = %x", seed, n, nal)
			}
		}
	}
}

func TestAnnexB(t *testing.T) {
	units := []AnnexBUnit{{NAL: unhex("6742"), FourByte: true, TrailingZeros: 2}, {NAL: unhex("68ce"), TrailingZeros: 0}, {NAL: unhex("65"), FourByte: true, TrailingZeros: 3}}
	bs := BuildAnnexB(units)
	got, err := SplitAnnexB(bs)
	if err != nil || len(got) != 3 || !bytes.Equal(got[0], units[0].NAL) || !bytes.Equal(got[1], units[1].NAL) || !bytes.Equal(got[2], units[2].NAL) {
		t.Fatalf("%x -> %x %v", bs, got, err)
	}
	a := BuildAVCC(got, 4)
	back, err := SplitAVCC(a, 4)
	if err != nil || !reflect.DeepEqual(back, got) {
		t.Fatal("avcc")
	}
}

func TestConfigRecords(t *testing.T) {
	c := &AVCConfig{ProfileIndication: 100, ProfileCompatibility: 0, LevelIndication: 31, LengthSizeMinusOne: 3, SPS: [][]byte{unhex("6764001f")}, PPS: [][]byte{unhex("68ee3cb0")},
		HasExt: true, ChromaFormat: 1}
	b := c.Marshal()
	// ffmpeg layout
	if !bytes.Equal(b, unhex("0164001fffe100046764001f010004"+"68ee3cb0"+"fdf8f800")) {
		t.Fatalf("%x", b)
	}
	p, err := ParseAVCConfig(b)
	if err != nil || !reflect.DeepEqual(p.SPS, c.SPS) || !reflect.DeepEqual(p.PPS, c.PPS) || !p.HasExt {
		t.Fatalf("%+v %v", p, err)
	}
	h := &HEVCConfig{ProfileIdc: 1, CompatFlags: 0x60000000, ConstraintFlags: 0x900000000000, LevelIdc: 93, ChromaFormat: 1, NumTemporalLayers: 1, TemporalIdNested: true, LengthSizeMinusOne: 3,
		Arrays: []HEVCArray{{true, 32, [][]byte{unhex("40010c")}}, {true, 33, [][]byte{unhex("4201")}}, {true, 34, [][]byte{unhex("4401c0")}}}}
	hb := h.Marshal()
	hp, err := ParseHEVCConfig(hb)
	if err != nil || !reflect.DeepEqual(hp.Arrays, h.Arrays) || hp.ConstraintFlags != h.ConstraintFlags || hp.LevelIdc != 93 {
		t.Fatalf("%+v %v", hp, err)
	}
	if len(hb) != 23+3*5+3+2+3 {
		t.Fatalf("len %d", len(hb))
	}
}

func TestAAC(t *testing.T) {
	a, err := ParseASC(unhex("1210")) // AAC-LC 44100 stereo
	if err != nil || a.ObjectType != 2 || a.Frequency != 44100 || a.ChannelConfig != 2 || a.FrameLengthFlag {
		t.Fatalf("%+v %v", a, err)
	}
	if !bytes.Equal(BuildASC(2, 4, 0, 2, false, 0), unhex("1210")) {
		t.Fatal("BuildASC")
	}
	a, err = ParseASC(unhex("2b920800")) // HE-AAC explicit: AOT5, 22050 -> ext 44100, base LC
	if err != nil || !a.SBR || a.BaseObjectType != 2 || a.Frequency != 22050 || a.ExtFrequency != 44100 {
		t.Fatalf("%+v %v", a, err)
	}
	if !bytes.Equal(BuildASCExplicitSBR(false, 7, 2, 4, 2, false), unhex("2b920800")) {
		t.Fatalf("BuildASCExplicitSBR %x", BuildASCExplicitSBR(false, 7, 2, 4, 2, false))
	}
	h, err := ParseADTS(unhex("fff15080043ffc")) // LC 44100 stereo, frame length 33
	if err != nil || h.Profile != 1 || h.FreqIndex != 4 || h.ChannelConfig != 2 || h.FrameLength != 33 || h.ID != 0 || !h.ProtectionAbsent {
		t.Fatalf("%+v %v", h, err)
	}
	if !bytes.Equal(h.Marshal(), unhex("fff15080043ffc")) {
		t.Fatalf("%x", h.Marshal())
	}
}

func TestH265Model(t *testing.T) {
	s := &H265SPS{MaxSubLayersMinus1: 2, TemporalIdNesting: false,
		PTL: H265PTL{General: H265ProfileTier{ProfileIdc: 1, CompatFlags: 0x60000000, ConstraintFlags: 0x900000000000}, LevelIdc: 120,
			SubLayers: []H265SubLayerPTL{{ProfilePresent: true, LevelPresent: true, LevelIdc: 90}, {LevelPresent: true, LevelIdc: 93}}},
		ChromaFormatIdc: 3, SeparateColourPlane: true, Width: 1928, Height: 1088, Ordering: []H265Ordering{{1, 0, 0}, {2, 1, 0}, {3, 2, 5}},
		SubLayerOrderingInfoPresent: true, Log2DiffMaxMinCb: 3, Log2DiffMaxMinTb: 3, MaxTHDepthInter: 1}
	nal, w, h, err := s.EncodeNAL()
	if err != nil {
		t.Fatal(err)
	}
	pw, ph, err := ParseH265SPSSize(nal)
	if err != nil || pw != w || ph != h || w != 1928 || h != 1088 {
		t.Fatalf("%d %d %v", pw, ph, err)
	}
	// conformance window: offsets count chroma sample units
	for _, c := range []struct {
		cfi        uint32
		l, r, t, b uint32
		w, h       uint32
	}{{1, 0, 0, 0, 4, 1920, 1080}, {2, 1, 2, 3, 5, 1914, 1080}, {3, 1, 2, 3, 5, 1917, 1080}, {0, 1, 0, 0, 8, 1919, 1080}} {
		cs := *s
		cs.ChromaFormatIdc, cs.SeparateColourPlane, cs.Width, cs.Height = c.cfi, false, 1920, 1088
		cs.ConfWin, cs.ConfWinL, cs.ConfWinR, cs.ConfWinT, cs.ConfWinB = true, c.l, c.r, c.t, c.b
		nal, w, h, err := cs.EncodeNAL()
		if err != nil {
			t.Fatal(err)
		}
		pw, ph, err := ParseH265SPSSize(nal)
		if err != nil || w != c.w || h != c.h || pw != w || ph != h {
			t.Fatalf("conf window %+v: model %dx%d parser %dx%d %v", c, w, h, pw, ph, err)
		}
	}
	// x265 1920x1080 SPS (conformance window bottom 4 in 4:2:0 units)
	pw, ph, err = ParseH265SPSSize(unhex("420101016000000300900000030000030078a003c08010e59656924caf01680800001f480005dc0c"))
	if err != nil || pw != 1920 || ph != 1080 {
		t.Fatalf("x265 vector: %d %d %v", pw, ph, err)
	}
}
