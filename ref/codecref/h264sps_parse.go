package codecref

import "fmt"

// ParseH264SPS decodes an SPS NAL unit (header byte included, emulation
// prevention still in place) following 7.3.2.1 / E.1.1.  It is the decoder
// side of the encoder model and is used to cross-check the model against
// real-world parameter sets, and by checks that need the display size of an
// arbitrary SPS.
func ParseH264SPS(nal []byte) (*H264SPS, error) {
	if len(nal) < 4 {
		return nil, fmt.Errorf("codecref: SPS too short")
	}
	if nal[0]&0x80 != 0 || nal[0]&0x1f != 7 {
		return nil, fmt.Errorf("codecref: not an SPS NAL header: %#x", nal[0])
	}
	s := &H264SPS{NalRefIdc: nal[0] >> 5 & 3}
	r := NewBitReader(StripEmulationPrevention(nal[1:]))
	s.ProfileIdc = uint8(r.Bits(8))
	s.ConstraintFlags = uint8(r.Bits(8))
	s.LevelIdc = uint8(r.Bits(8))
	s.SpsID = r.UE()
	s.ChromaFormatIdc = 1
	if H264ProfileHasChromaInfo(s.ProfileIdc) {
		s.ChromaFormatIdc = r.UE()
		if s.ChromaFormatIdc == 3 {
			s.SeparateColourPlane = r.Flag()
		}
		s.BitDepthLumaMinus8 = r.UE()
		s.BitDepthChromaMinus8 = r.UE()
		s.QpprimeYZeroBypass = r.Flag()
		s.ScalingMatrixPresent = r.Flag()
		if s.ScalingMatrixPresent {
			n := 8
			if s.ChromaFormatIdc == 3 {
				n = 12
			}
			for i := 0; i < n; i++ {
				var l H264ScalingList
				l.Present = r.Flag()
				if l.Present {
					size := 16
					if i >= 6 {
						size = 64
					}
					lastScale, nextScale := 8, 8
					for j := 0; j < size; j++ {
						if nextScale != 0 {
							d := r.SE()
							l.Deltas = append(l.Deltas, d)
							nextScale = (lastScale + int(d) + 256) % 256
						}
						if nextScale != 0 {
							lastScale = nextScale
						}
					}
				}
				s.ScalingLists = append(s.ScalingLists, l)
			}
		}
	}
	s.Log2MaxFrameNumMinus4 = r.UE()
	s.PocType = r.UE()
	switch s.PocType {
	case 0:
		s.Log2MaxPocLsbMinus4 = r.UE()
	case 1:
		s.DeltaPicOrderAlwaysZero = r.Flag()
		s.OffsetForNonRefPic = r.SE()
		s.OffsetForTopToBottom = r.SE()
		n := r.UE()
		if n > 255 {
			return nil, fmt.Errorf("codecref: num_ref_frames_in_pic_order_cnt_cycle %d", n)
		}
		for i := uint32(0); i < n; i++ {
			s.OffsetForRefFrame = append(s.OffsetForRefFrame, r.SE())
		}
	}
	s.MaxNumRefFrames = r.UE()
	s.GapsInFrameNumAllowed = r.Flag()
	s.PicWidthInMbsMinus1 = r.UE()
	s.PicHeightInMapUnitsMinus1 = r.UE()
	s.FrameMbsOnly = r.Flag()
	if !s.FrameMbsOnly {
		s.MbAdaptiveFrameField = r.Flag()
	}
	s.Direct8x8Inference = r.Flag()
	s.FrameCropping = r.Flag()
	if s.FrameCropping {
		s.CropLeft = r.UE()
		s.CropRight = r.UE()
		s.CropTop = r.UE()
		s.CropBottom = r.UE()
	}
	if r.Flag() {
		v := &H264VUI{}
		s.VUI = v
		v.AspectRatioInfoPresent = r.Flag()
		if v.AspectRatioInfoPresent {
			v.AspectRatioIdc = uint8(r.Bits(8))
			if v.AspectRatioIdc == 255 {
				v.SarWidth = uint16(r.Bits(16))
				v.SarHeight = uint16(r.Bits(16))
			}
		}
		v.OverscanInfoPresent = r.Flag()
		if v.OverscanInfoPresent {
			v.OverscanAppropriate = r.Flag()
		}
		v.VideoSignalTypePresent = r.Flag()
		if v.VideoSignalTypePresent {
			v.VideoFormat = uint8(r.Bits(3))
			v.VideoFullRange = r.Flag()
			v.ColourDescriptionPresent = r.Flag()
			if v.ColourDescriptionPresent {
				v.ColourPrimaries = uint8(r.Bits(8))
				v.TransferCharacteristics = uint8(r.Bits(8))
				v.MatrixCoefficients = uint8(r.Bits(8))
			}
		}
		v.ChromaLocInfoPresent = r.Flag()
		if v.ChromaLocInfoPresent {
			v.ChromaLocTop = r.UE()
			v.ChromaLocBottom = r.UE()
		}
		v.TimingInfoPresent = r.Flag()
		if v.TimingInfoPresent {
			v.NumUnitsInTick = uint32(r.Bits(32))
			v.TimeScale = uint32(r.Bits(32))
			v.FixedFrameRate = r.Flag()
		}
		if r.Flag() {
			v.NalHrd = parseH264HRD(r)
		}
		if r.Flag() {
			v.VclHrd = parseH264HRD(r)
		}
		if v.NalHrd != nil || v.VclHrd != nil {
			v.LowDelayHrd = r.Flag()
		}
		v.PicStructPresent = r.Flag()
		v.BitstreamRestriction = r.Flag()
		if v.BitstreamRestriction {
			v.MotionVectorsOverPicBoundaries = r.Flag()
			v.MaxBytesPerPicDenom = r.UE()
			v.MaxBitsPerMbDenom = r.UE()
			v.Log2MaxMvLengthHorizontal = r.UE()
			v.Log2MaxMvLengthVertical = r.UE()
			v.MaxNumReorderFrames = r.UE()
			v.MaxDecFrameBuffering = r.UE()
		}
	}
	if r.Err() != nil {
		return nil, r.Err()
	}
	return s, nil
}

func parseH264HRD(r *BitReader) *H264HRD {
	h := &H264HRD{}
	n := r.UE() + 1
	if n > 32 {
		n = 32
	}
	h.BitRateScale = uint8(r.Bits(4))
	h.CpbSizeScale = uint8(r.Bits(4))
	for i := uint32(0); i < n; i++ {
		h.BitRateValM1 = append(h.BitRateValM1, r.UE())
		h.CpbSizeValM1 = append(h.CpbSizeValM1, r.UE())
		h.Cbr = append(h.Cbr, r.Flag())
	}
	h.InitialDelayLenM1 = uint8(r.Bits(5))
	h.CpbRemovalDelayLenM1 = uint8(r.Bits(5))
	h.DpbOutputDelayLenM1 = uint8(r.Bits(5))
	h.TimeOffsetLen = uint8(r.Bits(5))
	return h
}
