package codecref

import (
	"encoding/binary"
	"fmt"
)

// AVCConfig is AVCDecoderConfigurationRecord (ISO/IEC 14496-15 5.2.4.1.1).
type AVCConfig struct {
	ConfigurationVersion uint8
	ProfileIndication    uint8
	ProfileCompatibility uint8
	LevelIndication      uint8
	LengthSizeMinusOne   uint8
	SPS                  [][]byte
	PPS                  [][]byte
	// present only for the High profiles (100, 110, 122, 144) when the record
	// carries the trailing fields
	HasExt         bool
	ChromaFormat   uint8
	BitDepthLumaM8 uint8
	BitDepthChrM8  uint8
	SPSExt         [][]byte
	// Reserved bits as found (a writer sets them all to 1)
	Reserved6, Reserved3 uint8
}

// ParseAVCConfig decodes an AVCDecoderConfigurationRecord.
func ParseAVCConfig(b []byte) (*AVCConfig, error) {
	if len(b) < 7 {
		return nil, fmt.Errorf("codecref: avcC shorter than 7 bytes (%d)", len(b))
	}
	c := &AVCConfig{ConfigurationVersion: b[0], ProfileIndication: b[1], ProfileCompatibility: b[2], LevelIndication: b[3],
		Reserved6: b[4] >> 2, LengthSizeMinusOne: b[4] & 3, Reserved3: b[5] >> 5}
	if c.ConfigurationVersion != 1 {
		return nil, fmt.Errorf("codecref: avcC configurationVersion %d", c.ConfigurationVersion)
	}
	p := 5
	readSets := func(n int) ([][]byte, error) {
		var out [][]byte
		for i := 0; i < n; i++ {
			if p+2 > len(b) {
				return nil, fmt.Errorf("codecref: avcC truncated in a parameter set length at offset %d", p)
			}
			l := int(binary.BigEndian.Uint16(b[p:]))
			p += 2
			if p+l > len(b) {
				return nil, fmt.Errorf("codecref: avcC parameter set of %d bytes at offset %d exceeds the record (%d bytes)", l, p, len(b))
			}
			out = append(out, append([]byte(nil), b[p:p+l]...))
			p += l
		}
		return out, nil
	}
	var err error
	nsps := int(b[p] & 0x1f)
	p++
	if c.SPS, err = readSets(nsps); err != nil {
		return nil, err
	}
	if p >= len(b) {
		return nil, fmt.Errorf("codecref: avcC truncated before numOfPictureParameterSets")
	}
	npps := int(b[p])
	p++
	if c.PPS, err = readSets(npps); err != nil {
		return nil, err
	}
	switch c.ProfileIndication {
	case 100, 110, 122, 144:
		if len(b)-p >= 4 {
			c.HasExt = true
			c.ChromaFormat = b[p] & 3
			c.BitDepthLumaM8 = b[p+1] & 7
			c.BitDepthChrM8 = b[p+2] & 7
			n := int(b[p+3])
			p += 4
			if c.SPSExt, err = readSets(n); err != nil {
				return nil, err
			}
		}
	}
	return c, nil
}

// Marshal writes the record (reserved bits set to 1).
func (c *AVCConfig) Marshal() []byte {
	out := []byte{1, c.ProfileIndication, c.ProfileCompatibility, c.LevelIndication, 0xFC | c.LengthSizeMinusOne&3, 0xE0 | uint8(len(c.SPS))&0x1f}
	put := func(sets [][]byte) {
		for _, s := range sets {
			out = append(out, byte(len(s)>>8), byte(len(s)))
			out = append(out, s...)
		}
	}
	put(c.SPS)
	out = append(out, uint8(len(c.PPS)))
	put(c.PPS)
	if c.HasExt {
		out = append(out, 0xFC|c.ChromaFormat&3, 0xF8|c.BitDepthLumaM8&7, 0xF8|c.BitDepthChrM8&7, uint8(len(c.SPSExt)))
		put(c.SPSExt)
	}
	return out
}

// RtmpAvcSeqHeader wraps a record into the RTMP/FLV VIDEODATA payload of an
// AVC sequence header: FrameType 1 | CodecID 7, AVCPacketType 0,
// CompositionTime 0 (Adobe FLV spec v10.1 E.4.3.1).
func RtmpAvcSeqHeader(record []byte) []byte {
	return append([]byte{0x17, 0, 0, 0, 0}, record...)
}

// ParseRtmpAvcSeqHeader is the inverse of RtmpAvcSeqHeader.
func ParseRtmpAvcSeqHeader(payload []byte) (*AVCConfig, error) {
	if len(payload) < 5 || payload[0]&0x0f != 7 || payload[1] != 0 {
		return nil, fmt.Errorf("codecref: not an AVC sequence header tag")
	}
	return ParseAVCConfig(payload[5:])
}

// HEVCArray is one entry of the arrays of an HEVCDecoderConfigurationRecord.
type HEVCArray struct {
	Completeness bool
	NALType      uint8
	NALUs        [][]byte
}

// HEVCConfig is HEVCDecoderConfigurationRecord (ISO/IEC 14496-15 8.3.3.1.2).
type HEVCConfig struct {
	ConfigurationVersion   uint8
	ProfileSpace           uint8
	TierFlag               bool
	ProfileIdc             uint8
	CompatFlags            uint32
	ConstraintFlags        uint64 // 48 bits
	LevelIdc               uint8
	MinSpatialSegmentation uint16 // 12 bits
	ParallelismType        uint8
	ChromaFormat           uint8
	BitDepthLumaMinus8     uint8
	BitDepthChromaMinus8   uint8
	AvgFrameRate           uint16
	ConstantFrameRate      uint8
	NumTemporalLayers      uint8
	TemporalIdNested       bool
	LengthSizeMinusOne     uint8
	Arrays                 []HEVCArray
}

// ParseHEVCConfig decodes an HEVCDecoderConfigurationRecord.
func ParseHEVCConfig(b []byte) (*HEVCConfig, error) {
	if len(b) < 23 {
		return nil, fmt.Errorf("codecref: hvcC shorter than 23 bytes (%d)", len(b))
	}
	c := &HEVCConfig{ConfigurationVersion: b[0]}
	if c.ConfigurationVersion != 1 {
		return nil, fmt.Errorf("codecref: hvcC configurationVersion %d", c.ConfigurationVersion)
	}
	c.ProfileSpace = b[1] >> 6
	c.TierFlag = b[1]>>5&1 == 1
	c.ProfileIdc = b[1] & 0x1f
	c.CompatFlags = binary.BigEndian.Uint32(b[2:])
	c.ConstraintFlags = uint64(binary.BigEndian.Uint32(b[6:]))<<16 | uint64(binary.BigEndian.Uint16(b[10:]))
	c.LevelIdc = b[12]
	c.MinSpatialSegmentation = binary.BigEndian.Uint16(b[13:]) & 0x0fff
	c.ParallelismType = b[15] & 3
	c.ChromaFormat = b[16] & 3
	c.BitDepthLumaMinus8 = b[17] & 7
	c.BitDepthChromaMinus8 = b[18] & 7
	c.AvgFrameRate = binary.BigEndian.Uint16(b[19:])
	c.ConstantFrameRate = b[21] >> 6
	c.NumTemporalLayers = b[21] >> 3 & 7
	c.TemporalIdNested = b[21]>>2&1 == 1
	c.LengthSizeMinusOne = b[21] & 3
	n := int(b[22])
	p := 23
	for i := 0; i < n; i++ {
		if p+3 > len(b) {
			return nil, fmt.Errorf("codecref: hvcC truncated in array %d header", i)
		}
		a := HEVCArray{Completeness: b[p]&0x80 != 0, NALType: b[p] & 0x3f}
		cnt := int(binary.BigEndian.Uint16(b[p+1:]))
		p += 3
		for j := 0; j < cnt; j++ {
			if p+2 > len(b) {
				return nil, fmt.Errorf("codecref: hvcC truncated in array %d nalu %d length", i, j)
			}
			l := int(binary.BigEndian.Uint16(b[p:]))
			p += 2
			if p+l > len(b) {
				return nil, fmt.Errorf("codecref: hvcC array %d nalu %d of %d bytes exceeds the record", i, j, l)
			}
			a.NALUs = append(a.NALUs, append([]byte(nil), b[p:p+l]...))
			p += l
		}
		c.Arrays = append(c.Arrays, a)
	}
	return c, nil
}

// Marshal writes the record (reserved bits set to 1).
func (c *HEVCConfig) Marshal() []byte {
	out := make([]byte, 23)
	out[0] = 1
	out[1] = c.ProfileSpace<<6 | c.ProfileIdc&0x1f
	if c.TierFlag {
		out[1] |= 0x20
	}
	binary.BigEndian.PutUint32(out[2:], c.CompatFlags)
	binary.BigEndian.PutUint32(out[6:], uint32(c.ConstraintFlags>>16))
	binary.BigEndian.PutUint16(out[10:], uint16(c.ConstraintFlags))
	out[12] = c.LevelIdc
	binary.BigEndian.PutUint16(out[13:], 0xF000|c.MinSpatialSegmentation&0x0fff)
	out[15] = 0xFC | c.ParallelismType&3
	out[16] = 0xFC | c.ChromaFormat&3
	out[17] = 0xF8 | c.BitDepthLumaMinus8&7
	out[18] = 0xF8 | c.BitDepthChromaMinus8&7
	binary.BigEndian.PutUint16(out[19:], c.AvgFrameRate)
	out[21] = c.ConstantFrameRate<<6 | c.NumTemporalLayers&7<<3 | c.LengthSizeMinusOne&3
	if c.TemporalIdNested {
		out[21] |= 4
	}
	out[22] = uint8(len(c.Arrays))
	for _, a := range c.Arrays {
		h := a.NALType & 0x3f
		if a.Completeness {
			h |= 0x80
		}
		out = append(out, h, byte(len(a.NALUs)>>8), byte(len(a.NALUs)))
		for _, n := range a.NALUs {
			out = append(out, byte(len(n)>>8), byte(len(n)))
			out = append(out, n...)
		}
	}
	return out
}

// NALUsOfType returns all NAL units of the arrays with the given type.
func (c *HEVCConfig) NALUsOfType(t uint8) [][]byte {
	var out [][]byte
	for _, a := range c.Arrays {
		if a.NALType == t {
			out = append(out, a.NALUs...)
		}
	}
	return out
}

// RtmpHevcSeqHeader wraps a record the classic (CodecID 12) way: 0x1c,
// packet type 0, composition time 0.
func RtmpHevcSeqHeader(record []byte) []byte {
	return append([]byte{0x1c, 0, 0, 0, 0}, record...)
}

// RtmpHevcEnhancedSeqHeader wraps a record the Enhanced-RTMP way:
// IsExHeader | FrameType key (1) | PacketTypeSequenceStart (0), FourCC hvc1.
func RtmpHevcEnhancedSeqHeader(record []byte) []byte {
	return append([]byte{0x90, 'h', 'v', 'c', '1'}, record...)
}

// ParseRtmpHevcSeqHeader accepts both wrappings.
func ParseRtmpHevcSeqHeader(payload []byte) (*HEVCConfig, error) {
	if len(payload) < 5 {
		return nil, fmt.Errorf("codecref: HEVC sequence header tag too short")
	}
	if payload[0]&0x80 != 0 {
		if payload[0]&0x0f != 0 || string(payload[1:5]) != "hvc1" {
			return nil, fmt.Errorf("codecref: not an enhanced hvc1 sequence start")
		}
	} else if payload[0]&0x0f != 12 || payload[1] != 0 {
		return nil, fmt.Errorf("codecref: not an HEVC sequence header tag")
	}
	return ParseHEVCConfig(payload[5:])
}
