// Package codecref holds independent, from-the-specification helpers for the
// codec-configuration formats the checks need as oracles:
//
//   - a bit writer / reader with Exp-Golomb codes (ITU-T H.264 clause 9.1)
//   - NAL emulation prevention as an encoder applies it (H.264 7.4.1 / H.265 7.4.2)
//   - an H.264 sequence parameter set *encoder model* (H.264 7.3.2.1, E.1.1) that
//     also returns the display size the parameters describe (7.4.2.1.1)
//   - a basic H.265 VPS / SPS encoder model (H.265 7.3.2.1, 7.3.2.2, 7.3.3)
//   - AVCDecoderConfigurationRecord / HEVCDecoderConfigurationRecord readers and
//     writers (ISO/IEC 14496-15 5.2.4.1, 8.3.3.1) and their RTMP/FLV wrappers
//   - AudioSpecificConfig and ADTS header readers / writers (ISO/IEC 14496-3)
//   - Annex-B byte stream and length-prefixed NAL framing (H.264 Annex B)
//
// It never imports lal.
package codecref

import "fmt"

// BitWriter appends bits MSB first.
type BitWriter struct {
	buf  []byte
	nbit uint // number of bits used in the last byte (0 = byte aligned)
}

// PutBits writes the n (0..64) low bits of v, most significant first.
func (w *BitWriter) PutBits(n uint, v uint64) {
	for i := int(n) - 1; i >= 0; i-- {
		w.putBit(uint8(v>>uint(i)) & 1)
	}
}

func (w *BitWriter) putBit(b uint8) {
	if w.nbit == 0 {
		w.buf = append(w.buf, 0)
	}
	if b != 0 {
		w.buf[len(w.buf)-1] |= 1 << (7 - w.nbit)
	}
	w.nbit = (w.nbit + 1) & 7
}

// PutFlag writes one bit.
func (w *BitWriter) PutFlag(b bool) {
	if b {
		w.putBit(1)
	} else {
		w.putBit(0)
	}
}

// PutUE writes an unsigned Exp-Golomb code ue(v), v in 0..2^32-2.
func (w *BitWriter) PutUE(v uint32) {
	x := uint64(v) + 1
	n := uint(0)
	for t := x; t > 1; t >>= 1 {
		n++
	}
	w.PutBits(n, 0)
	w.PutBits(n+1, x)
}

// PutSE writes a signed Exp-Golomb code se(v) (H.264 9.1.1: codeNum k maps to
// (-1)^(k+1) * ceil(k/2)).
func (w *BitWriter) PutSE(v int32) {
	var k uint32
	if v > 0 {
		k = uint32(2*int64(v) - 1)
	} else {
		k = uint32(-2 * int64(v))
	}
	w.PutUE(k)
}

// TrailingBits writes rbsp_trailing_bits(): a stop bit 1 and zero bits to the
// next byte boundary.
func (w *BitWriter) TrailingBits() {
	w.putBit(1)
	for w.nbit != 0 {
		w.putBit(0)
	}
}

// Aligned reports whether the writer is at a byte boundary.
func (w *BitWriter) Aligned() bool { return w.nbit == 0 }

// BitLen is the number of bits written.
func (w *BitWriter) BitLen() int {
	if w.nbit == 0 {
		return len(w.buf) * 8
	}
	return (len(w.buf)-1)*8 + int(w.nbit)
}

// Bytes returns the bytes written so far (the last one zero padded).
func (w *BitWriter) Bytes() []byte { return w.buf }

// BitReader reads bits MSB first.
type BitReader struct {
	b   []byte
	pos int // bit position
	err error
}

func NewBitReader(b []byte) *BitReader { return &BitReader{b: b} }

func (r *BitReader) Err() error { return r.err }

// Left is the number of unread bits.
func (r *BitReader) Left() int { return len(r.b)*8 - r.pos }

func (r *BitReader) Bits(n uint) uint64 {
	var v uint64
	for i := uint(0); i < n; i++ {
		if r.pos >= len(r.b)*8 {
			if r.err == nil {
				r.err = fmt.Errorf("codecref: read past the end at bit %d", r.pos)
			}
			return 0
		}
		bit := r.b[r.pos>>3] >> (7 - uint(r.pos&7)) & 1
		v = v<<1 | uint64(bit)
		r.pos++
	}
	return v
}

func (r *BitReader) Flag() bool { return r.Bits(1) == 1 }

func (r *BitReader) UE() uint32 {
	n := uint(0)
	for r.Bits(1) == 0 {
		if r.err != nil {
			return 0
		}
		n++
		if n > 32 {
			r.err = fmt.Errorf("codecref: ue(v) prefix longer than 32 bits")
			return 0
		}
	}
	return uint32((uint64(1)<<n | r.Bits(n)) - 1)
}

func (r *BitReader) SE() int32 {
	k := int64(r.UE())
	if k&1 == 1 {
		return int32((k + 1) / 2)
	}
	return int32(-(k / 2))
}

// EmulationPrevent converts an RBSP (without the NAL header) into the NAL
// payload bytes an encoder must emit: an emulation_prevention_three_byte is
// inserted whenever two consecutive zero bytes would be followed by a byte
// <= 3, and after a final zero byte (H.264 7.4.1, H.265 7.4.2).
func EmulationPrevent(rbsp []byte) []byte {
	out := make([]byte, 0, len(rbsp)+len(rbsp)/64+2)
	zeros := 0
	for _, b := range rbsp {
		if zeros >= 2 && b <= 3 {
			out = append(out, 3)
			zeros = 0
		}
		out = append(out, b)
		if b == 0 {
			zeros++
		} else {
			zeros = 0
		}
	}
	if len(rbsp) > 0 && rbsp[len(rbsp)-1] == 0 {
		out = append(out, 3)
	}
	return out
}

// StripEmulationPrevention is the decoder side: removes every 0x03 that
// follows two zero bytes.
func StripEmulationPrevention(nalPayload []byte) []byte {
	out := make([]byte, 0, len(nalPayload))
	zeros := 0
	for _, b := range nalPayload {
		if zeros >= 2 && b == 3 {
			zeros = 0
			continue
		}
		out = append(out, b)
		if b == 0 {
			zeros++
		} else {
			zeros = 0
		}
	}
	return out
}

// HasEPB reports whether a NAL unit contains an emulation prevention byte.
func HasEPB(nal []byte) bool {
	zeros := 0
	for _, b := range nal {
		if zeros >= 2 && b == 3 {
			return true
		}
		if b == 0 {
			zeros++
		} else {
			zeros = 0
		}
	}
	return false
}

// WellFormedNAL reports whether b can be a NAL unit inside an Annex-B byte
// stream: non-empty, no 00 00 00 / 00 00 01 / 00 00 02 inside, last byte not
// zero.
func WellFormedNAL(b []byte) bool {
	if len(b) == 0 || b[len(b)-1] == 0 {
		return false
	}
	zeros := 0
	for _, c := range b {
		if zeros >= 2 && c <= 2 {
			return false
		}
		if c == 0 {
			zeros++
		} else {
			zeros = 0
		}
	}
	return true
}

// FillNAL returns a deterministic NAL unit of exactly n bytes (n >= len(hdr),
// or the first n bytes of hdr when n is smaller): hdr followed by a
// pseudo-random RBSP derived from seed with emulation prevention applied as an
// encoder would, and a non-zero last byte.  zeroPermille (0..1000) is the
// probability of forcing an RBSP byte to zero, so that runs of zeros — and
// therefore emulation prevention bytes — are frequent when wanted.
func FillNAL(hdr []byte, seed uint32, n int, zeroPermille int) []byte {
	if n <= len(hdr) {
		out := append([]byte(nil), hdr[:n]...)
		if n > 0 && out[n-1] == 0 {
			out[n-1] = 1
		}
		return out
	}
	x := seed*2654435761 + 0x9E3779B9
	if x == 0 {
		x = 1
	}
	next := func() uint32 {
		x ^= x << 13
		x ^= x >> 17
		x ^= x << 5
		return x
	}
	out := make([]byte, 0, n)
	out = append(out, hdr...)
	zeros := 0
	for len(out) < n {
		r := next()
		b := byte(r >> 11)
		if int(r>>20)%1000 < zeroPermille {
			b = byte(r>>8) & 3 // 0..3, mostly producing the sequences that need protection
			if (r>>30)&1 == 0 {
				b = 0
			}
		}
		if zeros >= 2 && b <= 3 {
			out = append(out, 3)
			zeros = 0
			if len(out) == n {
				break
			}
		}
		out = append(out, b)
		if b == 0 {
			zeros++
		} else {
			zeros = 0
		}
	}
	if out[n-1] == 0 {
		out[n-1] = 0x80 | byte(next()>>9)
	}
	return out
}
