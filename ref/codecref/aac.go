package codecref

import "fmt"

// AACSampleRates is the samplingFrequencyIndex table (ISO/IEC 14496-3 Table 1.18).
var AACSampleRates = [16]int{96000, 88200, 64000, 48000, 44100, 32000, 24000, 22050, 16000, 12000, 11025, 8000, 7350, 0, 0, 0}

// ASC is the decoded head of an AudioSpecificConfig (ISO/IEC 14496-3 1.6.2.1).
type ASC struct {
	ObjectType    int // audioObjectType after escape decoding (1..95)
	FreqIndex     int // samplingFrequencyIndex
	Frequency     int // Hz (explicit when FreqIndex == 15)
	ChannelConfig int
	// explicit hierarchical SBR / PS signalling (object types 5 and 29)
	SBR            bool
	PS             bool
	ExtFreqIndex   int
	ExtFrequency   int
	BaseObjectType int // object type of the underlying coder when SBR/PS is signalled, else = ObjectType
	// GASpecificConfig (object types 1,2,3,4,6,7,17,19..23)
	HasGA              bool
	FrameLengthFlag    bool
	DependsOnCoreCoder bool
	CoreCoderDelay     int
	ExtensionFlag      bool
	BitsConsumed       int
}

func getAOT(r *BitReader) int {
	t := int(r.Bits(5))
	if t == 31 {
		t = 32 + int(r.Bits(6))
	}
	return t
}

func getFreq(r *BitReader) (idx, hz int) {
	idx = int(r.Bits(4))
	if idx == 15 {
		return idx, int(r.Bits(24))
	}
	return idx, AACSampleRates[idx]
}

// ParseASC decodes an AudioSpecificConfig.
func ParseASC(b []byte) (*ASC, error) {
	r := NewBitReader(b)
	a := &ASC{}
	a.ObjectType = getAOT(r)
	a.FreqIndex, a.Frequency = getFreq(r)
	a.ChannelConfig = int(r.Bits(4))
	a.BaseObjectType = a.ObjectType
	if a.ObjectType == 5 || a.ObjectType == 29 {
		a.SBR = true
		a.PS = a.ObjectType == 29
		a.ExtFreqIndex, a.ExtFrequency = getFreq(r)
		a.BaseObjectType = getAOT(r)
		if a.BaseObjectType == 22 {
			r.Bits(4) // extensionChannelConfiguration
		}
	}
	switch a.BaseObjectType {
	case 1, 2, 3, 4, 6, 7, 17, 19, 20, 21, 22, 23:
		a.HasGA = true
		a.FrameLengthFlag = r.Flag()
		a.DependsOnCoreCoder = r.Flag()
		if a.DependsOnCoreCoder {
			a.CoreCoderDelay = int(r.Bits(14))
		}
		a.ExtensionFlag = r.Flag()
	}
	if r.Err() != nil {
		return nil, fmt.Errorf("codecref: AudioSpecificConfig of %d bytes too short: %v", len(b), r.Err())
	}
	a.BitsConsumed = len(b)*8 - r.Left()
	return a, nil
}

// BuildASC writes a plain AudioSpecificConfig for a GA object type: 5-bit (or
// escaped) object type, frequency index (explicit frequency when idx == 15),
// channel configuration, GASpecificConfig flags frameLengthFlag /
// dependsOnCoreCoder=0 / extensionFlag=0.  Object types 5 and 29 write the
// explicit SBR form with extension frequency extIdx and base type 2.
func BuildASC(objectType, freqIdx, explicitHz, channelConfig int, frameLength960 bool, extIdx int) []byte {
	var w BitWriter
	putAOT := func(t int) {
		if t >= 32 {
			w.PutBits(5, 31)
			w.PutBits(6, uint64(t-32))
		} else {
			w.PutBits(5, uint64(t))
		}
	}
	putAOT(objectType)
	w.PutBits(4, uint64(freqIdx))
	if freqIdx == 15 {
		w.PutBits(24, uint64(explicitHz))
	}
	w.PutBits(4, uint64(channelConfig))
	if objectType == 5 || objectType == 29 {
		w.PutBits(4, uint64(extIdx))
		putAOT(2)
	}
	w.PutFlag(frameLength960)
	w.PutFlag(false)
	w.PutFlag(false)
	return w.Bytes()
}

// BuildASCExplicitSBR writes an AudioSpecificConfig with explicit hierarchical
// SBR (object type 5) or SBR+PS (object type 29) signalling (1.6.2.1, 1.6.5):
// leading type 5/29, core frequency index, channel configuration, extension
// frequency index, the underlying object type, then its GASpecificConfig.
func BuildASCExplicitSBR(ps bool, coreIdx, channelConfig, extIdx, baseObjectType int, frameLength960 bool) []byte {
	var w BitWriter
	lead := 5
	if ps {
		lead = 29
	}
	w.PutBits(5, uint64(lead))
	w.PutBits(4, uint64(coreIdx))
	w.PutBits(4, uint64(channelConfig))
	w.PutBits(4, uint64(extIdx))
	w.PutBits(5, uint64(baseObjectType))
	w.PutFlag(frameLength960)
	w.PutFlag(false)
	w.PutFlag(false)
	return w.Bytes()
}

// ADTS is the fixed + variable header of an ADTS frame (ISO/IEC 14496-3
// 1.A.2.2.1, 1.A.2.2.2; ISO/IEC 13818-7 6.2).
type ADTS struct {
	ID               uint8 // 0 = MPEG-4, 1 = MPEG-2
	Layer            uint8
	ProtectionAbsent bool
	Profile          uint8 // profile_ObjectType: audio object type minus 1
	FreqIndex        uint8
	PrivateBit       bool
	ChannelConfig    uint8
	OriginalCopy     bool
	Home             bool
	CopyrightIDBit   bool
	CopyrightIDStart bool
	FrameLength      uint16 // 13 bits, header included
	BufferFullness   uint16 // 11 bits
	RawBlocksMinus1  uint8
}

// ParseADTS decodes the 7 header bytes.
func ParseADTS(b []byte) (*ADTS, error) {
	if len(b) < 7 {
		return nil, fmt.Errorf("codecref: ADTS header needs 7 bytes, got %d", len(b))
	}
	r := NewBitReader(b[:7])
	if s := r.Bits(12); s != 0xFFF {
		return nil, fmt.Errorf("codecref: ADTS syncword %#x", s)
	}
	h := &ADTS{}
	h.ID = uint8(r.Bits(1))
	h.Layer = uint8(r.Bits(2))
	h.ProtectionAbsent = r.Flag()
	h.Profile = uint8(r.Bits(2))
	h.FreqIndex = uint8(r.Bits(4))
	h.PrivateBit = r.Flag()
	h.ChannelConfig = uint8(r.Bits(3))
	h.OriginalCopy = r.Flag()
	h.Home = r.Flag()
	h.CopyrightIDBit = r.Flag()
	h.CopyrightIDStart = r.Flag()
	h.FrameLength = uint16(r.Bits(13))
	h.BufferFullness = uint16(r.Bits(11))
	h.RawBlocksMinus1 = uint8(r.Bits(2))
	if h.Layer != 0 {
		return nil, fmt.Errorf("codecref: ADTS layer %d (shall be 0)", h.Layer)
	}
	return h, nil
}

// Marshal writes the 7 header bytes.
func (h *ADTS) Marshal() []byte {
	var w BitWriter
	w.PutBits(12, 0xFFF)
	w.PutBits(1, uint64(h.ID&1))
	w.PutBits(2, uint64(h.Layer&3))
	w.PutFlag(h.ProtectionAbsent)
	w.PutBits(2, uint64(h.Profile&3))
	w.PutBits(4, uint64(h.FreqIndex&15))
	w.PutFlag(h.PrivateBit)
	w.PutBits(3, uint64(h.ChannelConfig&7))
	w.PutFlag(h.OriginalCopy)
	w.PutFlag(h.Home)
	w.PutFlag(h.CopyrightIDBit)
	w.PutFlag(h.CopyrightIDStart)
	w.PutBits(13, uint64(h.FrameLength&0x1fff))
	w.PutBits(11, uint64(h.BufferFullness&0x7ff))
	w.PutBits(2, uint64(h.RawBlocksMinus1&3))
	return w.Bytes()
}
