package codecref

import "fmt"

// H264ScalingList is one seq_scaling_list: when Present, Deltas are the
// delta_scale values the encoder writes, in order; the encoder stops writing
// as soon as nextScale becomes 0 (7.3.2.1.1.1) and pads with delta 0 when the
// slice runs out.
type H264ScalingList struct {
	Present bool    `json:"present"`
	Deltas  []int32 `json:"deltas,omitempty"` // each in -128..127
}

// H264HRD is hrd_parameters() (E.1.2).
type H264HRD struct {
	BitRateScale uint8    `json:"bit_rate_scale"`
	CpbSizeScale uint8    `json:"cpb_size_scale"`
	BitRateValM1 []uint32 `json:"bit_rate_value_minus1"` // cpb_cnt_minus1+1 entries (1..32)
	CpbSizeValM1 []uint32 `json:"cpb_size_value_minus1"`
	Cbr          []bool   `json:"cbr_flag"`
	InitialDelayLenM1,
	CpbRemovalDelayLenM1,
	DpbOutputDelayLenM1,
	TimeOffsetLen uint8
}

// H264VUI is vui_parameters() (E.1.1).
type H264VUI struct {
	AspectRatioInfoPresent bool   `json:"aspect_ratio_info_present"`
	AspectRatioIdc         uint8  `json:"aspect_ratio_idc"`
	SarWidth               uint16 `json:"sar_width"`
	SarHeight              uint16 `json:"sar_height"`

	OverscanInfoPresent bool `json:"overscan_info_present"`
	OverscanAppropriate bool `json:"overscan_appropriate"`

	VideoSignalTypePresent   bool  `json:"video_signal_type_present"`
	VideoFormat              uint8 `json:"video_format"`
	VideoFullRange           bool  `json:"video_full_range"`
	ColourDescriptionPresent bool  `json:"colour_description_present"`
	ColourPrimaries          uint8 `json:"colour_primaries"`
	TransferCharacteristics  uint8 `json:"transfer_characteristics"`
	MatrixCoefficients       uint8 `json:"matrix_coefficients"`

	ChromaLocInfoPresent bool   `json:"chroma_loc_info_present"`
	ChromaLocTop         uint32 `json:"chroma_loc_top"`
	ChromaLocBottom      uint32 `json:"chroma_loc_bottom"`

	TimingInfoPresent bool   `json:"timing_info_present"`
	NumUnitsInTick    uint32 `json:"num_units_in_tick"`
	TimeScale         uint32 `json:"time_scale"`
	FixedFrameRate    bool   `json:"fixed_frame_rate"`

	NalHrd           *H264HRD `json:"nal_hrd,omitempty"`
	VclHrd           *H264HRD `json:"vcl_hrd,omitempty"`
	LowDelayHrd      bool     `json:"low_delay_hrd"`
	PicStructPresent bool     `json:"pic_struct_present"`

	BitstreamRestriction           bool   `json:"bitstream_restriction"`
	MotionVectorsOverPicBoundaries bool   `json:"mv_over_pic_boundaries"`
	MaxBytesPerPicDenom            uint32 `json:"max_bytes_per_pic_denom"`
	MaxBitsPerMbDenom              uint32 `json:"max_bits_per_mb_denom"`
	Log2MaxMvLengthHorizontal      uint32 `json:"log2_max_mv_length_horizontal"`
	Log2MaxMvLengthVertical        uint32 `json:"log2_max_mv_length_vertical"`
	MaxNumReorderFrames            uint32 `json:"max_num_reorder_frames"`
	MaxDecFrameBuffering           uint32 `json:"max_dec_frame_buffering"`
}

// H264SPS is the parameter set of the encoder model: every syntax element of
// seq_parameter_set_data() (7.3.2.1.1).
type H264SPS struct {
	NalRefIdc       uint8  `json:"nal_ref_idc"` // 1..3 (shall not be 0 for an SPS)
	ProfileIdc      uint8  `json:"profile_idc"`
	ConstraintFlags uint8  `json:"constraint_flags"` // constraint_set0..5_flag in bits 7..2; reserved_zero_2bits are written as 0
	LevelIdc        uint8  `json:"level_idc"`
	SpsID           uint32 `json:"sps_id"` // 0..31

	// only written for the profiles that carry chroma information
	ChromaFormatIdc      uint32            `json:"chroma_format_idc"` // 0..3
	SeparateColourPlane  bool              `json:"separate_colour_plane"`
	BitDepthLumaMinus8   uint32            `json:"bit_depth_luma_minus8"`
	BitDepthChromaMinus8 uint32            `json:"bit_depth_chroma_minus8"`
	QpprimeYZeroBypass   bool              `json:"qpprime_y_zero_transform_bypass"`
	ScalingMatrixPresent bool              `json:"seq_scaling_matrix_present"`
	ScalingLists         []H264ScalingList `json:"scaling_lists,omitempty"` // 8, or 12 when chroma_format_idc == 3 (missing entries = not present)

	Log2MaxFrameNumMinus4   uint32  `json:"log2_max_frame_num_minus4"`
	PocType                 uint32  `json:"pic_order_cnt_type"`
	Log2MaxPocLsbMinus4     uint32  `json:"log2_max_pic_order_cnt_lsb_minus4"`
	DeltaPicOrderAlwaysZero bool    `json:"delta_pic_order_always_zero"`
	OffsetForNonRefPic      int32   `json:"offset_for_non_ref_pic"`
	OffsetForTopToBottom    int32   `json:"offset_for_top_to_bottom_field"`
	OffsetForRefFrame       []int32 `json:"offset_for_ref_frame,omitempty"` // 0..255 entries

	MaxNumRefFrames           uint32   `json:"max_num_ref_frames"`
	GapsInFrameNumAllowed     bool     `json:"gaps_in_frame_num_value_allowed"`
	PicWidthInMbsMinus1       uint32   `json:"pic_width_in_mbs_minus1"`
	PicHeightInMapUnitsMinus1 uint32   `json:"pic_height_in_map_units_minus1"`
	FrameMbsOnly              bool     `json:"frame_mbs_only"`
	MbAdaptiveFrameField      bool     `json:"mb_adaptive_frame_field"`
	Direct8x8Inference        bool     `json:"direct_8x8_inference"`
	FrameCropping             bool     `json:"frame_cropping"`
	CropLeft                  uint32   `json:"crop_left"`
	CropRight                 uint32   `json:"crop_right"`
	CropTop                   uint32   `json:"crop_top"`
	CropBottom                uint32   `json:"crop_bottom"`
	VUI                       *H264VUI `json:"vui,omitempty"`
}

// H264ProfileHasChromaInfo is the profile_idc condition of 7.3.2.1.1 (edition
// 2016 and later).
func H264ProfileHasChromaInfo(profileIdc uint8) bool {
	switch profileIdc {
	case 100, 110, 122, 244, 44, 83, 86, 118, 128, 138, 139, 134, 135:
		return true
	}
	return false
}

// ChromaArrayType and the crop units of 7.4.2.1.1.
func (s *H264SPS) cropUnits() (x, y uint32) {
	cfi := uint32(1)
	sep := false
	if H264ProfileHasChromaInfo(s.ProfileIdc) {
		cfi = s.ChromaFormatIdc
		sep = cfi == 3 && s.SeparateColourPlane
	}
	fmo := uint32(0)
	if s.FrameMbsOnly {
		fmo = 1
	}
	chromaArrayType := cfi
	if sep {
		chromaArrayType = 0
	}
	if chromaArrayType == 0 {
		return 1, 2 - fmo
	}
	subW, subH := uint32(2), uint32(2) // 4:2:0
	switch cfi {
	case 2:
		subW, subH = 2, 1
	case 3:
		subW, subH = 1, 1
	}
	return subW, subH * (2 - fmo)
}

// CropUnits exposes CropUnitX / CropUnitY for generators.
func (s *H264SPS) CropUnits() (x, y uint32) { return s.cropUnits() }

// CodedSize returns PicWidthInSamplesL and the frame height 16*FrameHeightInMbs.
func (s *H264SPS) CodedSize() (w, h uint32) {
	fmo := uint32(0)
	if s.FrameMbsOnly {
		fmo = 1
	}
	return (s.PicWidthInMbsMinus1 + 1) * 16, (2 - fmo) * (s.PicHeightInMapUnitsMinus1 + 1) * 16
}

// DisplaySize is the size of the frame cropping rectangle (7.4.2.1.1): the
// output picture an H.264 decoder delivers.
func (s *H264SPS) DisplaySize() (w, h uint32) {
	w, h = s.CodedSize()
	if s.FrameCropping {
		ux, uy := s.cropUnits()
		w -= ux * (s.CropLeft + s.CropRight)
		h -= uy * (s.CropTop + s.CropBottom)
	}
	return
}

// Validate checks the value ranges and cross-field constraints of 7.4.2.1.1
// that concern syntax (not the level limits).
func (s *H264SPS) Validate() error {
	if s.NalRefIdc == 0 || s.NalRefIdc > 3 {
		return fmt.Errorf("nal_ref_idc %d", s.NalRefIdc)
	}
	if s.SpsID > 31 {
		return fmt.Errorf("sps id %d", s.SpsID)
	}
	if s.ConstraintFlags&3 != 0 {
		return fmt.Errorf("reserved_zero_2bits set")
	}
	if H264ProfileHasChromaInfo(s.ProfileIdc) {
		if s.ChromaFormatIdc > 3 || s.BitDepthLumaMinus8 > 6 || s.BitDepthChromaMinus8 > 6 {
			return fmt.Errorf("chroma/bit depth out of range")
		}
		if s.SeparateColourPlane && s.ChromaFormatIdc != 3 {
			return fmt.Errorf("separate_colour_plane without 4:4:4")
		}
		n := 8
		if s.ChromaFormatIdc == 3 {
			n = 12
		}
		if len(s.ScalingLists) > n {
			return fmt.Errorf("too many scaling lists")
		}
		for _, l := range s.ScalingLists {
			for _, d := range l.Deltas {
				if d < -128 || d > 127 {
					return fmt.Errorf("delta_scale %d", d)
				}
			}
		}
	}
	if s.Log2MaxFrameNumMinus4 > 12 || s.PocType > 2 || s.Log2MaxPocLsbMinus4 > 12 {
		return fmt.Errorf("frame num / poc out of range")
	}
	if len(s.OffsetForRefFrame) > 255 {
		return fmt.Errorf("num_ref_frames_in_pic_order_cnt_cycle > 255")
	}
	for _, v := range append([]int32{s.OffsetForNonRefPic, s.OffsetForTopToBottom}, s.OffsetForRefFrame...) {
		if v == -1<<31 {
			return fmt.Errorf("offset out of range")
		}
	}
	if !s.FrameMbsOnly && !s.Direct8x8Inference {
		return fmt.Errorf("direct_8x8_inference_flag shall be 1 when frame_mbs_only_flag is 0")
	}
	if s.FrameCropping {
		ux, uy := s.cropUnits()
		w, h := s.CodedSize()
		if uint64(ux)*(uint64(s.CropLeft)+uint64(s.CropRight)) >= uint64(w) || uint64(uy)*(uint64(s.CropTop)+uint64(s.CropBottom)) >= uint64(h) {
			return fmt.Errorf("cropping rectangle empty")
		}
	}
	if v := s.VUI; v != nil {
		for _, h := range []*H264HRD{v.NalHrd, v.VclHrd} {
			if h == nil {
				continue
			}
			n := len(h.BitRateValM1)
			if n < 1 || n > 32 || len(h.CpbSizeValM1) != n || len(h.Cbr) != n {
				return fmt.Errorf("hrd cpb count")
			}
		}
	}
	return nil
}

// EncodeRBSP writes seq_parameter_set_rbsp() (7.3.2.1) without NAL header and
// without emulation prevention.
func (s *H264SPS) EncodeRBSP() []byte {
	var w BitWriter
	w.PutBits(8, uint64(s.ProfileIdc))
	w.PutBits(8, uint64(s.ConstraintFlags&0xFC))
	w.PutBits(8, uint64(s.LevelIdc))
	w.PutUE(s.SpsID)
	if H264ProfileHasChromaInfo(s.ProfileIdc) {
		w.PutUE(s.ChromaFormatIdc)
		if s.ChromaFormatIdc == 3 {
			w.PutFlag(s.SeparateColourPlane)
		}
		w.PutUE(s.BitDepthLumaMinus8)
		w.PutUE(s.BitDepthChromaMinus8)
		w.PutFlag(s.QpprimeYZeroBypass)
		w.PutFlag(s.ScalingMatrixPresent)
		if s.ScalingMatrixPresent {
			n := 8
			if s.ChromaFormatIdc == 3 {
				n = 12
			}
			for i := 0; i < n; i++ {
				var l H264ScalingList
				if i < len(s.ScalingLists) {
					l = s.ScalingLists[i]
				}
				w.PutFlag(l.Present)
				if !l.Present {
					continue
				}
				size := 16
				if i >= 6 {
					size = 64
				}
				// scaling_list() 7.3.2.1.1.1
				lastScale, nextScale := 8, 8
				k := 0
				for j := 0; j < size; j++ {
					if nextScale != 0 {
						d := int32(0)
						if k < len(l.Deltas) {
							d = l.Deltas[k]
						}
						k++
						w.PutSE(d)
						nextScale = (lastScale + int(d) + 256) % 256
					}
					if nextScale != 0 {
						lastScale = nextScale
					}
				}
			}
		}
	}
	w.PutUE(s.Log2MaxFrameNumMinus4)
	w.PutUE(s.PocType)
	switch s.PocType {
	case 0:
		w.PutUE(s.Log2MaxPocLsbMinus4)
	case 1:
		w.PutFlag(s.DeltaPicOrderAlwaysZero)
		w.PutSE(s.OffsetForNonRefPic)
		w.PutSE(s.OffsetForTopToBottom)
		w.PutUE(uint32(len(s.OffsetForRefFrame)))
		for _, o := range s.OffsetForRefFrame {
			w.PutSE(o)
		}
	}
	w.PutUE(s.MaxNumRefFrames)
	w.PutFlag(s.GapsInFrameNumAllowed)
	w.PutUE(s.PicWidthInMbsMinus1)
	w.PutUE(s.PicHeightInMapUnitsMinus1)
	w.PutFlag(s.FrameMbsOnly)
	if !s.FrameMbsOnly {
		w.PutFlag(s.MbAdaptiveFrameField)
	}
	w.PutFlag(s.Direct8x8Inference)
	w.PutFlag(s.FrameCropping)
	if s.FrameCropping {
		w.PutUE(s.CropLeft)
		w.PutUE(s.CropRight)
		w.PutUE(s.CropTop)
		w.PutUE(s.CropBottom)
	}
	w.PutFlag(s.VUI != nil)
	if s.VUI != nil {
		s.VUI.encode(&w)
	}
	w.TrailingBits()
	return w.Bytes()
}

func (h *H264HRD) encode(w *BitWriter) {
	w.PutUE(uint32(len(h.BitRateValM1) - 1))
	w.PutBits(4, uint64(h.BitRateScale&15))
	w.PutBits(4, uint64(h.CpbSizeScale&15))
	for i := range h.BitRateValM1 {
		w.PutUE(h.BitRateValM1[i])
		w.PutUE(h.CpbSizeValM1[i])
		w.PutFlag(h.Cbr[i])
	}
	w.PutBits(5, uint64(h.InitialDelayLenM1&31))
	w.PutBits(5, uint64(h.CpbRemovalDelayLenM1&31))
	w.PutBits(5, uint64(h.DpbOutputDelayLenM1&31))
	w.PutBits(5, uint64(h.TimeOffsetLen&31))
}

func (v *H264VUI) encode(w *BitWriter) {
	w.PutFlag(v.AspectRatioInfoPresent)
	if v.AspectRatioInfoPresent {
		w.PutBits(8, uint64(v.AspectRatioIdc))
		if v.AspectRatioIdc == 255 { // Extended_SAR
			w.PutBits(16, uint64(v.SarWidth))
			w.PutBits(16, uint64(v.SarHeight))
		}
	}
	w.PutFlag(v.OverscanInfoPresent)
	if v.OverscanInfoPresent {
		w.PutFlag(v.OverscanAppropriate)
	}
	w.PutFlag(v.VideoSignalTypePresent)
	if v.VideoSignalTypePresent {
		w.PutBits(3, uint64(v.VideoFormat&7))
		w.PutFlag(v.VideoFullRange)
		w.PutFlag(v.ColourDescriptionPresent)
		if v.ColourDescriptionPresent {
			w.PutBits(8, uint64(v.ColourPrimaries))
			w.PutBits(8, uint64(v.TransferCharacteristics))
			w.PutBits(8, uint64(v.MatrixCoefficients))
		}
	}
	w.PutFlag(v.ChromaLocInfoPresent)
	if v.ChromaLocInfoPresent {
		w.PutUE(v.ChromaLocTop)
		w.PutUE(v.ChromaLocBottom)
	}
	w.PutFlag(v.TimingInfoPresent)
	if v.TimingInfoPresent {
		w.PutBits(32, uint64(v.NumUnitsInTick))
		w.PutBits(32, uint64(v.TimeScale))
		w.PutFlag(v.FixedFrameRate)
	}
	w.PutFlag(v.NalHrd != nil)
	if v.NalHrd != nil {
		v.NalHrd.encode(w)
	}
	w.PutFlag(v.VclHrd != nil)
	if v.VclHrd != nil {
		v.VclHrd.encode(w)
	}
	if v.NalHrd != nil || v.VclHrd != nil {
		w.PutFlag(v.LowDelayHrd)
	}
	w.PutFlag(v.PicStructPresent)
	w.PutFlag(v.BitstreamRestriction)
	if v.BitstreamRestriction {
		w.PutFlag(v.MotionVectorsOverPicBoundaries)
		w.PutUE(v.MaxBytesPerPicDenom)
		w.PutUE(v.MaxBitsPerMbDenom)
		w.PutUE(v.Log2MaxMvLengthHorizontal)
		w.PutUE(v.Log2MaxMvLengthVertical)
		w.PutUE(v.MaxNumReorderFrames)
		w.PutUE(v.MaxDecFrameBuffering)
	}
}

// EncodeNAL returns the complete SPS NAL unit (header byte, RBSP with
// emulation prevention applied) and the display width / height the parameters
// describe.
func (s *H264SPS) EncodeNAL() (nal []byte, width, height uint32, err error) {
	if err = s.Validate(); err != nil {
		return nil, 0, 0, err
	}
	hdr := byte(s.NalRefIdc&3)<<5 | 7
	nal = append([]byte{hdr}, EmulationPrevent(s.EncodeRBSP())...)
	width, height = s.DisplaySize()
	return
}

// H264MaxFS is Table A-1's MaxFS (macroblocks) per level_idc (level 1b is
// level_idc 9 for the High profiles and 11 + constraint_set3 otherwise).
var H264MaxFS = map[uint8]uint32{
	9: 99, 10: 99, 11: 396, 12: 396, 13: 396, 20: 396, 21: 792, 22: 1620, 30: 1620, 31: 3600, 32: 5120,
	40: 8192, 41: 8192, 42: 8704, 50: 22080, 51: 36864, 52: 36864, 60: 139264, 61: 139264, 62: 139264,
}

// H264LevelFits applies A.3.1 items f-h: PicWidthInMbs*FrameHeightInMbs <=
// MaxFS, each dimension <= sqrt(8*MaxFS).
func H264LevelFits(level uint8, widthMbs, frameHeightMbs uint32) bool {
	fs, ok := H264MaxFS[level]
	if !ok {
		return false
	}
	if uint64(widthMbs)*uint64(frameHeightMbs) > uint64(fs) {
		return false
	}
	lim := uint64(fs) * 8
	return uint64(widthMbs)*uint64(widthMbs) <= lim && uint64(frameHeightMbs)*uint64(frameHeightMbs) <= lim
}
