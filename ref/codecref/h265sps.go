package codecref

import "fmt"

// H265ProfileTier is the 88-bit profile part of profile_tier_level() (H.265
// 7.3.3) for the general layer or one sub-layer.
type H265ProfileTier struct {
	ProfileSpace    uint8  `json:"profile_space"` // 0..3
	TierFlag        bool   `json:"tier_flag"`
	ProfileIdc      uint8  `json:"profile_idc"` // 0..31
	CompatFlags     uint32 `json:"compat_flags"`
	ConstraintFlags uint64 `json:"constraint_flags"` // 48 bits: progressive_source .. reserved / inbld
}

type H265SubLayerPTL struct {
	ProfilePresent bool            `json:"profile_present"`
	LevelPresent   bool            `json:"level_present"`
	Profile        H265ProfileTier `json:"profile"`
	LevelIdc       uint8           `json:"level_idc"`
}

// H265PTL is profile_tier_level(1, maxNumSubLayersMinus1).
type H265PTL struct {
	General   H265ProfileTier   `json:"general"`
	LevelIdc  uint8             `json:"level_idc"`
	SubLayers []H265SubLayerPTL `json:"sub_layers,omitempty"` // exactly maxNumSubLayersMinus1 entries
}

func (p *H265ProfileTier) encode(w *BitWriter) {
	w.PutBits(2, uint64(p.ProfileSpace&3))
	w.PutFlag(p.TierFlag)
	w.PutBits(5, uint64(p.ProfileIdc&31))
	w.PutBits(32, uint64(p.CompatFlags))
	w.PutBits(48, p.ConstraintFlags&(1<<48-1))
}

func (p *H265PTL) encode(w *BitWriter, maxSubLayersMinus1 int) {
	p.General.encode(w)
	w.PutBits(8, uint64(p.LevelIdc))
	for i := 0; i < maxSubLayersMinus1; i++ {
		w.PutFlag(p.SubLayers[i].ProfilePresent)
		w.PutFlag(p.SubLayers[i].LevelPresent)
	}
	if maxSubLayersMinus1 > 0 {
		for i := maxSubLayersMinus1; i < 8; i++ {
			w.PutBits(2, 0) // reserved_zero_2bits
		}
	}
	for i := 0; i < maxSubLayersMinus1; i++ {
		if p.SubLayers[i].ProfilePresent {
			p.SubLayers[i].Profile.encode(w)
		}
		if p.SubLayers[i].LevelPresent {
			w.PutBits(8, uint64(p.SubLayers[i].LevelIdc))
		}
	}
}

// H265Ordering is one entry of the sub-layer ordering info.
type H265Ordering struct {
	MaxDecPicBufferingMinus1 uint32 `json:"max_dec_pic_buffering_minus1"`
	MaxNumReorderPics        uint32 `json:"max_num_reorder_pics"`
	MaxLatencyIncreasePlus1  uint32 `json:"max_latency_increase_plus1"`
}

func encodeOrdering(w *BitWriter, present bool, o []H265Ordering, maxSubLayersMinus1 int) {
	w.PutFlag(present)
	i := maxSubLayersMinus1
	if present {
		i = 0
	}
	for ; i <= maxSubLayersMinus1; i++ {
		w.PutUE(o[i].MaxDecPicBufferingMinus1)
		w.PutUE(o[i].MaxNumReorderPics)
		w.PutUE(o[i].MaxLatencyIncreasePlus1)
	}
}

// H265VPS is a basic video_parameter_set_rbsp() (7.3.2.1): single layer, no
// HRD parameters, no extension.
type H265VPS struct {
	VpsID                       uint8          `json:"vps_id"`                // 0..15
	MaxSubLayersMinus1          uint8          `json:"max_sub_layers_minus1"` // 0..6
	TemporalIdNesting           bool           `json:"temporal_id_nesting"`
	PTL                         H265PTL        `json:"ptl"`
	SubLayerOrderingInfoPresent bool           `json:"sub_layer_ordering_info_present"`
	Ordering                    []H265Ordering `json:"ordering"`     // MaxSubLayersMinus1+1 entries
	MaxLayerID                  uint8          `json:"max_layer_id"` // 0..62
	// LayerSets[i] holds layer_id_included_flag[i+1][0..MaxLayerID]
	// (vps_num_layer_sets_minus1 = len(LayerSets), 0..1023)
	LayerSets                [][]bool `json:"layer_sets,omitempty"`
	TimingInfoPresent        bool     `json:"timing_info_present"`
	NumUnitsInTick           uint32   `json:"num_units_in_tick"`
	TimeScale                uint32   `json:"time_scale"`
	PocProportional          bool     `json:"poc_proportional"`
	NumTicksPocDiffOneMinus1 uint32   `json:"num_ticks_poc_diff_one_minus1"`
}

func (v *H265VPS) Validate() error {
	if v.VpsID > 15 || v.MaxSubLayersMinus1 > 6 || v.MaxLayerID > 62 || len(v.LayerSets) > 1023 {
		return fmt.Errorf("vps field out of range")
	}
	if len(v.PTL.SubLayers) != int(v.MaxSubLayersMinus1) || len(v.Ordering) != int(v.MaxSubLayersMinus1)+1 {
		return fmt.Errorf("vps sub-layer arrays do not match max_sub_layers_minus1")
	}
	for _, s := range v.LayerSets {
		if len(s) != int(v.MaxLayerID)+1 {
			return fmt.Errorf("layer set size")
		}
	}
	return nil
}

// EncodeNAL returns the VPS NAL unit (two header bytes, emulation prevention
// applied).
func (v *H265VPS) EncodeNAL() ([]byte, error) {
	if err := v.Validate(); err != nil {
		return nil, err
	}
	var w BitWriter
	w.PutBits(4, uint64(v.VpsID))
	w.PutBits(1, 1) // vps_base_layer_internal_flag
	w.PutBits(1, 1) // vps_base_layer_available_flag
	w.PutBits(6, 0) // vps_max_layers_minus1
	w.PutBits(3, uint64(v.MaxSubLayersMinus1))
	w.PutFlag(v.TemporalIdNesting)
	w.PutBits(16, 0xFFFF)
	v.PTL.encode(&w, int(v.MaxSubLayersMinus1))
	encodeOrdering(&w, v.SubLayerOrderingInfoPresent, v.Ordering, int(v.MaxSubLayersMinus1))
	w.PutBits(6, uint64(v.MaxLayerID))
	w.PutUE(uint32(len(v.LayerSets)))
	for _, s := range v.LayerSets {
		for _, f := range s {
			w.PutFlag(f)
		}
	}
	w.PutFlag(v.TimingInfoPresent)
	if v.TimingInfoPresent {
		w.PutBits(32, uint64(v.NumUnitsInTick))
		w.PutBits(32, uint64(v.TimeScale))
		w.PutFlag(v.PocProportional)
		if v.PocProportional {
			w.PutUE(v.NumTicksPocDiffOneMinus1)
		}
		w.PutUE(0) // vps_num_hrd_parameters
	}
	w.PutFlag(false) // vps_extension_flag
	w.TrailingBits()
	return append(H265NALHeader(32, 0, 1), EmulationPrevent(w.Bytes())...), nil
}

// H265NALHeader builds the two-byte nal_unit_header() (7.3.1.2).
func H265NALHeader(nalType, layerID, temporalIDPlus1 uint8) []byte {
	return []byte{nalType&0x3f<<1 | layerID>>5&1, layerID&0x1f<<3 | temporalIDPlus1&7}
}

// H265ShortTermRPS is st_ref_pic_set() without inter RPS prediction.
type H265ShortTermRPS struct {
	NegDeltaPocMinus1 []uint32 `json:"neg_delta_poc_minus1,omitempty"`
	NegUsed           []bool   `json:"neg_used,omitempty"`
	PosDeltaPocMinus1 []uint32 `json:"pos_delta_poc_minus1,omitempty"`
	PosUsed           []bool   `json:"pos_used,omitempty"`
}

type H265PCM struct {
	BitDepthLumaMinus1   uint8  `json:"bit_depth_luma_minus1"`
	BitDepthChromaMinus1 uint8  `json:"bit_depth_chroma_minus1"`
	Log2MinCbMinus3      uint32 `json:"log2_min_cb_minus3"`
	Log2DiffMaxMinCb     uint32 `json:"log2_diff_max_min_cb"`
	LoopFilterDisabled   bool   `json:"loop_filter_disabled"`
}

// H265VUI is a basic vui_parameters() (E.2.1): no default display window, no
// HRD, no bitstream restriction.
type H265VUI struct {
	AspectRatioInfoPresent                                 bool   `json:"aspect_ratio_info_present"`
	AspectRatioIdc                                         uint8  `json:"aspect_ratio_idc"`
	SarWidth                                               uint16 `json:"sar_width"`
	SarHeight                                              uint16 `json:"sar_height"`
	OverscanInfoPresent                                    bool   `json:"overscan_info_present"`
	OverscanAppropriate                                    bool   `json:"overscan_appropriate"`
	VideoSignalTypePresent                                 bool   `json:"video_signal_type_present"`
	VideoFormat                                            uint8  `json:"video_format"`
	VideoFullRange                                         bool   `json:"video_full_range"`
	ColourDescriptionPresent                               bool   `json:"colour_description_present"`
	ColourPrimaries, TransferCharacteristics, MatrixCoeffs uint8
	ChromaLocInfoPresent                                   bool   `json:"chroma_loc_info_present"`
	ChromaLocTop                                           uint32 `json:"chroma_loc_top"`
	ChromaLocBottom                                        uint32 `json:"chroma_loc_bottom"`
	NeutralChroma, FieldSeq, FrameFieldInfoPresent         bool
	TimingInfoPresent                                      bool   `json:"timing_info_present"`
	NumUnitsInTick                                         uint32 `json:"num_units_in_tick"`
	TimeScale                                              uint32 `json:"time_scale"`
}

// H265SPS is a basic seq_parameter_set_rbsp() (7.3.2.2): optional conformance
// window, no scaling list data, no extension.
type H265SPS struct {
	VpsID               uint8   `json:"vps_id"`
	MaxSubLayersMinus1  uint8   `json:"max_sub_layers_minus1"` // 0..6
	TemporalIdNesting   bool    `json:"temporal_id_nesting"`
	PTL                 H265PTL `json:"ptl"`
	SpsID               uint32  `json:"sps_id"` // 0..15
	ChromaFormatIdc     uint32  `json:"chroma_format_idc"`
	SeparateColourPlane bool    `json:"separate_colour_plane"`
	Width               uint32  `json:"width"`  // pic_width_in_luma_samples
	Height              uint32  `json:"height"` // pic_height_in_luma_samples
	// conformance window (7.4.3.2.1): offsets in units of SubWidthC / SubHeightC
	// luma samples; written only when ConfWin is true
	ConfWin                     bool               `json:"conf_win"`
	ConfWinL                    uint32             `json:"conf_win_left"`
	ConfWinR                    uint32             `json:"conf_win_right"`
	ConfWinT                    uint32             `json:"conf_win_top"`
	ConfWinB                    uint32             `json:"conf_win_bottom"`
	BitDepthLumaMinus8          uint32             `json:"bit_depth_luma_minus8"`
	BitDepthChromaMinus8        uint32             `json:"bit_depth_chroma_minus8"`
	Log2MaxPocLsbMinus4         uint32             `json:"log2_max_poc_lsb_minus4"`
	SubLayerOrderingInfoPresent bool               `json:"sub_layer_ordering_info_present"`
	Ordering                    []H265Ordering     `json:"ordering"`
	Log2MinCbMinus3             uint32             `json:"log2_min_cb_minus3"`
	Log2DiffMaxMinCb            uint32             `json:"log2_diff_max_min_cb"`
	Log2MinTbMinus2             uint32             `json:"log2_min_tb_minus2"`
	Log2DiffMaxMinTb            uint32             `json:"log2_diff_max_min_tb"`
	MaxTHDepthInter             uint32             `json:"max_transform_hierarchy_depth_inter"`
	MaxTHDepthIntra             uint32             `json:"max_transform_hierarchy_depth_intra"`
	ScalingListEnabled          bool               `json:"scaling_list_enabled"`
	Amp                         bool               `json:"amp_enabled"`
	Sao                         bool               `json:"sao_enabled"`
	PCM                         *H265PCM           `json:"pcm,omitempty"`
	ShortTermRPS                []H265ShortTermRPS `json:"st_rps,omitempty"` // 0..64
	LongTermPresent             bool               `json:"long_term_ref_pics_present"`
	LtPocLsb                    []uint32           `json:"lt_ref_pic_poc_lsb_sps,omitempty"` // 0..32 entries
	LtUsed                      []bool             `json:"lt_used_by_curr,omitempty"`
	TemporalMvp                 bool               `json:"temporal_mvp"`
	StrongIntraSmoothing        bool               `json:"strong_intra_smoothing"`
	VUI                         *H265VUI           `json:"vui,omitempty"`
}

func (s *H265SPS) Validate() error {
	if s.VpsID > 15 || s.MaxSubLayersMinus1 > 6 || s.SpsID > 15 || s.ChromaFormatIdc > 3 {
		return fmt.Errorf("sps field out of range")
	}
	if s.MaxSubLayersMinus1 == 0 && !s.TemporalIdNesting {
		return fmt.Errorf("sps_temporal_id_nesting_flag shall be 1 when sps_max_sub_layers_minus1 is 0")
	}
	if s.SeparateColourPlane && s.ChromaFormatIdc != 3 {
		return fmt.Errorf("separate_colour_plane without 4:4:4")
	}
	if len(s.PTL.SubLayers) != int(s.MaxSubLayersMinus1) || len(s.Ordering) != int(s.MaxSubLayersMinus1)+1 {
		return fmt.Errorf("sps sub-layer arrays do not match max_sub_layers_minus1")
	}
	minCb := uint32(1) << (s.Log2MinCbMinus3 + 3)
	if s.Width == 0 || s.Height == 0 || s.Width%minCb != 0 || s.Height%minCb != 0 {
		return fmt.Errorf("picture size %dx%d is not a positive multiple of MinCbSizeY %d", s.Width, s.Height, minCb)
	}
	if s.ConfWin {
		sw, sh := s.ChromaUnits()
		if uint64(sw)*(uint64(s.ConfWinL)+uint64(s.ConfWinR)) >= uint64(s.Width) || uint64(sh)*(uint64(s.ConfWinT)+uint64(s.ConfWinB)) >= uint64(s.Height) {
			return fmt.Errorf("conformance window empty")
		}
	}
	ctbLog2 := s.Log2MinCbMinus3 + 3 + s.Log2DiffMaxMinCb
	if ctbLog2 < 4 || ctbLog2 > 6 {
		return fmt.Errorf("CtbLog2SizeY %d", ctbLog2)
	}
	minTb := s.Log2MinTbMinus2 + 2
	maxTb := minTb + s.Log2DiffMaxMinTb
	if minTb >= s.Log2MinCbMinus3+3 || maxTb > 5 || maxTb > ctbLog2 {
		return fmt.Errorf("transform block sizes")
	}
	if s.MaxTHDepthInter > ctbLog2-minTb || s.MaxTHDepthIntra > ctbLog2-minTb {
		return fmt.Errorf("transform hierarchy depth")
	}
	if s.BitDepthLumaMinus8 > 8 || s.BitDepthChromaMinus8 > 8 || s.Log2MaxPocLsbMinus4 > 12 {
		return fmt.Errorf("bit depth / poc")
	}
	if len(s.ShortTermRPS) > 64 || len(s.LtPocLsb) > 32 || len(s.LtPocLsb) != len(s.LtUsed) {
		return fmt.Errorf("rps counts")
	}
	for _, r := range s.ShortTermRPS {
		if len(r.NegDeltaPocMinus1) != len(r.NegUsed) || len(r.PosDeltaPocMinus1) != len(r.PosUsed) || len(r.NegUsed)+len(r.PosUsed) > 16 {
			return fmt.Errorf("st rps")
		}
	}
	return nil
}

// ChromaUnits returns SubWidthC and SubHeightC (Table 6-1): 2,2 for 4:2:0;
// 2,1 for 4:2:2; 1,1 for monochrome and 4:4:4 (with or without separate
// colour planes).
func (s *H265SPS) ChromaUnits() (subWidthC, subHeightC uint32) {
	switch s.ChromaFormatIdc {
	case 1:
		return 2, 2
	case 2:
		return 2, 1
	}
	return 1, 1
}

// OutputSize is the size of the conformance cropping window (7.4.3.2.1): the
// pictures an H.265 decoder outputs; the coded size when there is no window.
func (s *H265SPS) OutputSize() (w, h uint32) {
	w, h = s.Width, s.Height
	if s.ConfWin {
		sw, sh := s.ChromaUnits()
		w -= sw * (s.ConfWinL + s.ConfWinR)
		h -= sh * (s.ConfWinT + s.ConfWinB)
	}
	return
}

// EncodeNAL returns the SPS NAL unit and the output picture size.
func (s *H265SPS) EncodeNAL() (nal []byte, width, height uint32, err error) {
	if err = s.Validate(); err != nil {
		return nil, 0, 0, err
	}
	var w BitWriter
	w.PutBits(4, uint64(s.VpsID))
	w.PutBits(3, uint64(s.MaxSubLayersMinus1))
	w.PutFlag(s.TemporalIdNesting)
	s.PTL.encode(&w, int(s.MaxSubLayersMinus1))
	w.PutUE(s.SpsID)
	w.PutUE(s.ChromaFormatIdc)
	if s.ChromaFormatIdc == 3 {
		w.PutFlag(s.SeparateColourPlane)
	}
	w.PutUE(s.Width)
	w.PutUE(s.Height)
	w.PutFlag(s.ConfWin) // conformance_window_flag
	if s.ConfWin {
		w.PutUE(s.ConfWinL)
		w.PutUE(s.ConfWinR)
		w.PutUE(s.ConfWinT)
		w.PutUE(s.ConfWinB)
	}
	w.PutUE(s.BitDepthLumaMinus8)
	w.PutUE(s.BitDepthChromaMinus8)
	w.PutUE(s.Log2MaxPocLsbMinus4)
	encodeOrdering(&w, s.SubLayerOrderingInfoPresent, s.Ordering, int(s.MaxSubLayersMinus1))
	w.PutUE(s.Log2MinCbMinus3)
	w.PutUE(s.Log2DiffMaxMinCb)
	w.PutUE(s.Log2MinTbMinus2)
	w.PutUE(s.Log2DiffMaxMinTb)
	w.PutUE(s.MaxTHDepthInter)
	w.PutUE(s.MaxTHDepthIntra)
	w.PutFlag(s.ScalingListEnabled)
	if s.ScalingListEnabled {
		w.PutFlag(false) // sps_scaling_list_data_present_flag
	}
	w.PutFlag(s.Amp)
	w.PutFlag(s.Sao)
	w.PutFlag(s.PCM != nil)
	if p := s.PCM; p != nil {
		w.PutBits(4, uint64(p.BitDepthLumaMinus1&15))
		w.PutBits(4, uint64(p.BitDepthChromaMinus1&15))
		w.PutUE(p.Log2MinCbMinus3)
		w.PutUE(p.Log2DiffMaxMinCb)
		w.PutFlag(p.LoopFilterDisabled)
	}
	w.PutUE(uint32(len(s.ShortTermRPS)))
	for i, r := range s.ShortTermRPS {
		if i != 0 {
			w.PutFlag(false) // inter_ref_pic_set_prediction_flag
		}
		w.PutUE(uint32(len(r.NegUsed)))
		w.PutUE(uint32(len(r.PosUsed)))
		for j := range r.NegUsed {
			w.PutUE(r.NegDeltaPocMinus1[j])
			w.PutFlag(r.NegUsed[j])
		}
		for j := range r.PosUsed {
			w.PutUE(r.PosDeltaPocMinus1[j])
			w.PutFlag(r.PosUsed[j])
		}
	}
	w.PutFlag(s.LongTermPresent)
	if s.LongTermPresent {
		w.PutUE(uint32(len(s.LtPocLsb)))
		for i := range s.LtPocLsb {
			n := uint(s.Log2MaxPocLsbMinus4 + 4)
			w.PutBits(n, uint64(s.LtPocLsb[i])&(1<<n-1))
			w.PutFlag(s.LtUsed[i])
		}
	}
	w.PutFlag(s.TemporalMvp)
	w.PutFlag(s.StrongIntraSmoothing)
	w.PutFlag(s.VUI != nil)
	if v := s.VUI; v != nil {
		w.PutFlag(v.AspectRatioInfoPresent)
		if v.AspectRatioInfoPresent {
			w.PutBits(8, uint64(v.AspectRatioIdc))
			if v.AspectRatioIdc == 255 {
				w.PutBits(16, uint64(v.SarWidth))
				w.PutBits(16, uint64(v.SarHeight))
			}
		}
		w.PutFlag(v.OverscanInfoPresent)
		if v.OverscanInfoPresent {
			w.PutFlag(v.OverscanAppropriate)
		}
		w.PutFlag(v.VideoSignalTypePresent)
		if v.VideoSignalTypePresent {
			w.PutBits(3, uint64(v.VideoFormat&7))
			w.PutFlag(v.VideoFullRange)
			w.PutFlag(v.ColourDescriptionPresent)
			if v.ColourDescriptionPresent {
				w.PutBits(8, uint64(v.ColourPrimaries))
				w.PutBits(8, uint64(v.TransferCharacteristics))
				w.PutBits(8, uint64(v.MatrixCoeffs))
			}
		}
		w.PutFlag(v.ChromaLocInfoPresent)
		if v.ChromaLocInfoPresent {
			w.PutUE(v.ChromaLocTop)
			w.PutUE(v.ChromaLocBottom)
		}
		w.PutFlag(v.NeutralChroma)
		w.PutFlag(v.FieldSeq)
		w.PutFlag(v.FrameFieldInfoPresent)
		w.PutFlag(false) // default_display_window_flag
		w.PutFlag(v.TimingInfoPresent)
		if v.TimingInfoPresent {
			w.PutBits(32, uint64(v.NumUnitsInTick))
			w.PutBits(32, uint64(v.TimeScale))
			w.PutFlag(false) // vui_poc_proportional_to_timing_flag
			w.PutFlag(false) // vui_hrd_parameters_present_flag
		}
		w.PutFlag(false) // bitstream_restriction_flag
	}
	w.PutFlag(false) // sps_extension_present_flag
	w.TrailingBits()
	nal = append(H265NALHeader(33, 0, 1), EmulationPrevent(w.Bytes())...)
	width, height = s.OutputSize()
	return nal, width, height, nil
}

// ParseH265SPSSize decodes just enough of an SPS NAL unit (7.3.2.2) to return
// the output picture size, applying the conformance window when present.
func ParseH265SPSSize(nal []byte) (width, height uint32, err error) {
	if len(nal) < 3 || nal[0]>>1&0x3f != 33 {
		return 0, 0, fmt.Errorf("codecref: not an H.265 SPS")
	}
	r := NewBitReader(StripEmulationPrevention(nal[2:]))
	r.Bits(4)
	maxSub := int(r.Bits(3))
	r.Bits(1)
	r.Bits(88)
	r.Bits(8)
	pp := make([]bool, maxSub)
	lp := make([]bool, maxSub)
	for i := 0; i < maxSub; i++ {
		pp[i], lp[i] = r.Flag(), r.Flag()
	}
	if maxSub > 0 {
		for i := maxSub; i < 8; i++ {
			r.Bits(2)
		}
	}
	for i := 0; i < maxSub; i++ {
		if pp[i] {
			r.Bits(44)
			r.Bits(44)
		}
		if lp[i] {
			r.Bits(8)
		}
	}
	r.UE()
	cfi := r.UE()
	sep := false
	if cfi == 3 {
		sep = r.Flag()
	}
	width, height = r.UE(), r.UE()
	if r.Flag() {
		subW, subH := uint32(1), uint32(1)
		if !sep {
			switch cfi {
			case 1:
				subW, subH = 2, 2
			case 2:
				subW, subH = 2, 1
			}
		}
		l, rr, t, b := r.UE(), r.UE(), r.UE(), r.UE()
		width -= subW * (l + rr)
		height -= subH * (t + b)
	}
	return width, height, r.Err()
}
