package codecref

import (
	"encoding/binary"
	"fmt"
)

// AnnexBUnit describes how one NAL unit is framed in a byte stream (H.264
// Annex B.1): an optional zero_byte in front of the 3-byte start code prefix
// (making the 4-byte form) and trailing_zero_8bits after the unit.
type AnnexBUnit struct {
	NAL           []byte
	FourByte      bool // zero_byte + start_code_prefix_one_3bytes
	TrailingZeros int  // trailing_zero_8bits after this NAL unit
}

// BuildAnnexB serialises the units as a byte stream.
func BuildAnnexB(units []AnnexBUnit) []byte {
	var out []byte
	for _, u := range units {
		if u.FourByte {
			out = append(out, 0)
		}
		out = append(out, 0, 0, 1)
		out = append(out, u.NAL...)
		for i := 0; i < u.TrailingZeros; i++ {
			out = append(out, 0)
		}
	}
	return out
}

// SplitAnnexB extracts the NAL units of a byte stream following B.1/B.2:
// everything up to the first start code prefix is leading zero bytes; a NAL
// unit extends to the next 00 00 01 / 00 00 00 (or the end of the stream),
// and zero bytes that follow it (trailing_zero_8bits, zero_byte) are not part
// of it.
func SplitAnnexB(b []byte) ([][]byte, error) {
	var out [][]byte
	i := 0
	// find the first start code prefix
	first := -1
	for j := 0; j+2 < len(b); j++ {
		if b[j] == 0 && b[j+1] == 0 && b[j+2] == 1 {
			first = j
			break
		}
	}
	if first < 0 {
		return nil, fmt.Errorf("codecref: no start code prefix in the byte stream")
	}
	for k := 0; k < first; k++ {
		if b[k] != 0 {
			return nil, fmt.Errorf("codecref: non-zero byte %#x before the first start code", b[k])
		}
	}
	i = first + 3
	for {
		// NAL unit runs until 00 00 00, 00 00 01 or the end
		end := len(b)
		next := -1
		for j := i; j+2 < len(b); j++ {
			if b[j] == 0 && b[j+1] == 0 && (b[j+2] == 0 || b[j+2] == 1) {
				end = j
				next = j
				break
			}
		}
		nal := b[i:end]
		if next < 0 {
			// last unit: strip trailing zero bytes (fewer than three, otherwise
			// the loop above would have stopped earlier)
			for len(nal) > 0 && nal[len(nal)-1] == 0 {
				nal = nal[:len(nal)-1]
			}
		}
		if len(nal) == 0 {
			return nil, fmt.Errorf("codecref: empty NAL unit at offset %d", i)
		}
		out = append(out, append([]byte(nil), nal...))
		if next < 0 {
			return out, nil
		}
		// skip zeros up to the next start code prefix
		j := next
		for j < len(b) && b[j] == 0 {
			j++
		}
		if j == len(b) {
			return out, nil // only trailing zeros remained
		}
		if b[j] != 1 || j-next < 2 {
			return nil, fmt.Errorf("codecref: malformed byte stream at offset %d", j)
		}
		i = j + 1
		if i >= len(b) {
			return nil, fmt.Errorf("codecref: start code at the very end of the stream")
		}
	}
}

// BuildAVCC serialises NAL units with big-endian length prefixes of
// lengthSize (1, 2 or 4) bytes (ISO/IEC 14496-15 5.3.4.2 sample format).
func BuildAVCC(nals [][]byte, lengthSize int) []byte {
	var out []byte
	for _, n := range nals {
		switch lengthSize {
		case 1:
			out = append(out, byte(len(n)))
		case 2:
			out = append(out, byte(len(n)>>8), byte(len(n)))
		default:
			var l [4]byte
			binary.BigEndian.PutUint32(l[:], uint32(len(n)))
			out = append(out, l[:]...)
		}
		out = append(out, n...)
	}
	return out
}

// SplitAVCC is the inverse of BuildAVCC.
func SplitAVCC(b []byte, lengthSize int) ([][]byte, error) {
	var out [][]byte
	p := 0
	for p < len(b) {
		if p+lengthSize > len(b) {
			return out, fmt.Errorf("codecref: truncated length field at offset %d", p)
		}
		l := 0
		for i := 0; i < lengthSize; i++ {
			l = l<<8 | int(b[p+i])
		}
		p += lengthSize
		if p+l > len(b) {
			return out, fmt.Errorf("codecref: NAL unit of %d bytes at offset %d exceeds the buffer (%d)", l, p, len(b))
		}
		out = append(out, append([]byte(nil), b[p:p+l]...))
		p += l
	}
	return out, nil
}
