// Package memconn is an in-memory net.Conn pair written for the harness.
//
// Differences from net.Pipe that the checks rely on:
//
//   - writes never block (unbounded queue) unless the receiving direction has a
//     window set (SetWindow), in which case a write blocks while the queue holds
//     at least that many bytes — this emulates a peer that stopped reading, and
//     honours SetWriteDeadline so that lal's write timeouts fire;
//   - segment boundaries are preserved: a Read never returns bytes from two
//     different Write calls, so the writer controls TCP-like fragmentation;
//   - WaitPeerIdle tells the caller that the peer has consumed everything and is
//     blocked in Read on an empty queue (or has gone away), which — because lal
//     parses and dispatches in the goroutine that reads — means every complete
//     message written so far has been processed.
package memconn

import (
	"errors"
	"io"
	"net"
	"os"
	"sync"
	"time"
)

type queue struct {
	mu            sync.Mutex
	cond          *sync.Cond
	segs          [][]byte
	size          int
	wclosed       bool // writer side closed: EOF after drain
	rclosed       bool // reader side closed: writes fail
	readerWaiting bool
	window        int // <0: unlimited
	rdeadline     time.Time
	wdeadline     time.Time
	rtimer        *time.Timer
	wtimer        *time.Timer
	totalIn       int64
	totalOut      int64
}

func newQueue() *queue {
	q := &queue{window: -1}
	q.cond = sync.NewCond(&q.mu)
	return q
}

// Conn is one end of the pair.
type Conn struct {
	rd, wr      *queue
	local, peer net.Addr
	peerConn    *Conn
	doneMu      sync.Mutex
	done        bool // the goroutine serving this end has returned (set by MarkDone)
	closedLocal bool
}

type addr struct{ s string }

func (a addr) Network() string { return "tcp" }
func (a addr) String() string  { return a.s }

// Pair returns the two ends; by convention a is the harness (client) side and
// b is handed to lal.
func Pair() (a, b *Conn) { return PairAddr("127.0.0.1:50000", "127.0.0.1:1935") }

// PairAddr is Pair with explicit addresses (client address, server address).
func PairAddr(clientAddr, serverAddr string) (a, b *Conn) {
	q1, q2 := newQueue(), newQueue() // q1: a->b, q2: b->a
	ca, _ := net.ResolveTCPAddr("tcp", clientAddr)
	sa, _ := net.ResolveTCPAddr("tcp", serverAddr)
	var caddr, saddr net.Addr = addr{clientAddr}, addr{serverAddr}
	if ca != nil {
		caddr = ca
	}
	if sa != nil {
		saddr = sa
	}
	a = &Conn{rd: q2, wr: q1, local: caddr, peer: saddr}
	b = &Conn{rd: q1, wr: q2, local: saddr, peer: caddr}
	a.peerConn, b.peerConn = b, a
	return
}

var errTimeout = os.ErrDeadlineExceeded

func (c *Conn) Read(p []byte) (int, error) {
	q := c.rd
	q.mu.Lock()
	defer q.mu.Unlock()
	for {
		if q.rclosed {
			return 0, net.ErrClosed
		}
		if len(q.segs) > 0 {
			s := q.segs[0]
			n := copy(p, s)
			if n == len(s) {
				q.segs[0] = nil
				q.segs = q.segs[1:]
			} else {
				q.segs[0] = s[n:]
			}
			q.size -= n
			q.totalOut += int64(n)
			q.cond.Broadcast() // a blocked writer may proceed; idle waiters re-check
			return n, nil
		}
		if q.wclosed {
			return 0, io.EOF
		}
		if !q.rdeadline.IsZero() && !time.Now().Before(q.rdeadline) {
			return 0, errTimeout
		}
		if len(p) == 0 {
			return 0, nil
		}
		q.readerWaiting = true
		q.cond.Broadcast()
		q.cond.Wait()
		q.readerWaiting = false
	}
}

func (c *Conn) Write(p []byte) (int, error) {
	q := c.wr
	q.mu.Lock()
	defer q.mu.Unlock()
	if len(p) == 0 {
		return 0, nil
	}
	for {
		if q.wclosed {
			return 0, net.ErrClosed
		}
		if q.rclosed {
			return 0, errors.New("memconn: broken pipe")
		}
		if q.window < 0 || q.size < q.window {
			break
		}
		if !q.wdeadline.IsZero() && !time.Now().Before(q.wdeadline) {
			return 0, errTimeout
		}
		q.cond.Wait()
	}
	b := make([]byte, len(p))
	copy(b, p)
	q.segs = append(q.segs, b)
	q.size += len(b)
	q.totalIn += int64(len(b))
	q.readerWaiting = false
	q.cond.Broadcast()
	return len(p), nil
}

// Close closes this end: local reads fail, the peer reads EOF after draining,
// the peer's writes fail.
func (c *Conn) Close() error {
	c.rd.mu.Lock()
	c.rd.rclosed = true
	c.rd.cond.Broadcast()
	c.rd.mu.Unlock()
	c.wr.mu.Lock()
	c.wr.wclosed = true
	c.wr.readerWaiting = false // the peer has an event (EOF) to process: it is not idle
	c.wr.cond.Broadcast()
	c.wr.mu.Unlock()
	c.doneMu.Lock()
	c.closedLocal = true
	c.doneMu.Unlock()
	return nil
}

// CloseWrite half-closes: the peer reads EOF after draining; this end can
// still read.
func (c *Conn) CloseWrite() {
	c.wr.mu.Lock()
	c.wr.wclosed = true
	c.wr.cond.Broadcast()
	c.wr.mu.Unlock()
}

func (c *Conn) LocalAddr() net.Addr  { return c.local }
func (c *Conn) RemoteAddr() net.Addr { return c.peer }

func (c *Conn) SetDeadline(t time.Time) error {
	_ = c.SetReadDeadline(t)
	return c.SetWriteDeadline(t)
}

func setDeadline(q *queue, which *time.Time, timer **time.Timer, t time.Time) {
	q.mu.Lock()
	*which = t
	if *timer != nil {
		(*timer).Stop()
		*timer = nil
	}
	if !t.IsZero() {
		d := time.Until(t)
		if d < 0 {
			d = 0
		}
		*timer = time.AfterFunc(d, func() {
			q.mu.Lock()
			q.cond.Broadcast()
			q.mu.Unlock()
		})
	}
	q.cond.Broadcast()
	q.mu.Unlock()
}

func (c *Conn) SetReadDeadline(t time.Time) error {
	setDeadline(c.rd, &c.rd.rdeadline, &c.rd.rtimer, t)
	return nil
}

func (c *Conn) SetWriteDeadline(t time.Time) error {
	setDeadline(c.wr, &c.wr.wdeadline, &c.wr.wtimer, t)
	return nil
}

// SetRecvWindow limits how many bytes may sit unread in the direction
// peer -> this end (n < 0: unlimited, the default; 0: the peer's writes block at
// once).  This is what a peer with a full TCP window looks like to lal.
func (c *Conn) SetRecvWindow(n int) {
	q := c.rd
	q.mu.Lock()
	q.window = n
	q.cond.Broadcast()
	q.mu.Unlock()
}

// MarkDone records that the goroutine serving this end has returned.
func (c *Conn) MarkDone() {
	c.doneMu.Lock()
	c.done = true
	c.doneMu.Unlock()
	c.rd.mu.Lock()
	c.rd.cond.Broadcast()
	c.rd.mu.Unlock()
	c.wr.mu.Lock()
	c.wr.cond.Broadcast()
	c.wr.mu.Unlock()
}

// PeerGone reports whether the peer closed its end or its goroutine returned.
func (c *Conn) PeerGone() bool {
	p := c.peerConn
	p.doneMu.Lock()
	defer p.doneMu.Unlock()
	return p.done || p.closedLocal
}

// WaitPeerIdle blocks until the peer has consumed everything this end wrote
// and is blocked in Read on the empty queue, or the peer is gone.  It returns
// false on timeout.
func (c *Conn) WaitPeerIdle(timeout time.Duration) bool {
	q := c.wr
	deadline := time.Now().Add(timeout)
	t := time.AfterFunc(timeout, func() {
		q.mu.Lock()
		q.cond.Broadcast()
		q.mu.Unlock()
	})
	defer t.Stop()
	q.mu.Lock()
	defer q.mu.Unlock()
	for {
		if len(q.segs) == 0 && q.readerWaiting {
			return true
		}
		if q.rclosed {
			return true
		}
		if c.PeerGone() {
			return true
		}
		if !time.Now().Before(deadline) {
			return false
		}
		q.cond.Wait()
	}
}

// WaitPeerDone blocks until the goroutine serving the peer end has returned
// (MarkDone) — i.e. lal's accept handler has finished its teardown.
func (c *Conn) WaitPeerDone(timeout time.Duration) bool {
	q := c.wr
	deadline := time.Now().Add(timeout)
	t := time.AfterFunc(timeout, func() {
		q.mu.Lock()
		q.cond.Broadcast()
		q.mu.Unlock()
	})
	defer t.Stop()
	q.mu.Lock()
	defer q.mu.Unlock()
	for {
		p := c.peerConn
		p.doneMu.Lock()
		d := p.done
		p.doneMu.Unlock()
		if d {
			return true
		}
		if !time.Now().Before(deadline) {
			return false
		}
		q.cond.Wait()
	}
}

// Pending returns the number of bytes written by the peer and not yet read by
// this end.
func (c *Conn) Pending() int {
	c.rd.mu.Lock()
	defer c.rd.mu.Unlock()
	return c.rd.size
}

// TotalReceived returns the number of bytes the peer has written to this end so far.
func (c *Conn) TotalReceived() int64 {
	c.rd.mu.Lock()
	defer c.rd.mu.Unlock()
	return c.rd.totalIn
}

// ReadAvailable drains whatever is queued for this end without blocking.
func (c *Conn) ReadAvailable() []byte {
	q := c.rd
	q.mu.Lock()
	defer q.mu.Unlock()
	var out []byte
	for _, s := range q.segs {
		out = append(out, s...)
	}
	q.totalOut += int64(q.size)
	q.segs = nil
	q.size = 0
	q.cond.Broadcast()
	return out
}

// EOFPending reports whether the peer has closed and everything was drained.
func (c *Conn) EOFPending() bool {
	q := c.rd
	q.mu.Lock()
	defer q.mu.Unlock()
	return q.wclosed && len(q.segs) == 0
}

// WriteSliced writes b in the given slice sizes (remaining bytes in one last
// slice), preserving boundaries so that the peer sees fragmented reads.
func (c *Conn) WriteSliced(b []byte, sizes []int) error {
	for _, n := range sizes {
		if len(b) == 0 {
			break
		}
		if n <= 0 {
			continue
		}
		if n > len(b) {
			n = len(b)
		}
		if _, err := c.Write(b[:n]); err != nil {
			return err
		}
		b = b[n:]
	}
	if len(b) > 0 {
		_, err := c.Write(b)
		return err
	}
	return nil
}
