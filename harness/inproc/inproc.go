// Package inproc runs a real lal logic.ServerManager inside the test process
// without listeners (layer L2 of DESIGN.md): sessions are created through the
// same accept handlers / HTTP handlers the listeners call, each over a
// memconn pair, in goroutines owned by the harness so that a panic inside lal
// is recovered, attributed and shrinkable.
package inproc

import (
	"bufio"
	"encoding/json"
	"fmt"
	"net"
	"net/http"
	"os"
	"path/filepath"
	"runtime/debug"
	"sync"
	"time"

	"github.com/q191201771/lal/pkg/base"
	"github.com/q191201771/lal/pkg/hls"
	"github.com/q191201771/lal/pkg/logic"
	"github.com/q191201771/lal/pkg/rtmp"
	"github.com/q191201771/lal/pkg/rtsp"
	"github.com/q191201771/naza/pkg/mock"
	"github.com/q191201771/naza/pkg/nazalog"

	"verif/drv/pbt"
	"verif/harness/memconn"
)

func init() {
	// the global logger prints before the manager re-initialises it
	_ = nazalog.Init(func(o *nazalog.Option) {
		o.Level = nazalog.LevelFatal
		o.IsToStdout = false
		o.Filename = ""
		o.AssertBehavior = nazalog.AssertError
	})
}

// Config is the subset of lal's configuration the checks vary.  Zero value =
// RTMP + HTTP-FLV + HTTP-TS + RTSP enabled, no HLS, no recording.
type Config struct {
	RtmpGopNum, RtmpGopMaxFrame, RtmpMergeWrite     int
	FlvGopNum, FlvGopMaxFrame                       int
	TsGopNum, TsGopMaxFrame                         int
	DisableRtmp, DisableFlv, DisableTs, DisableRtsp bool

	Hls                bool
	HlsFragmentMs      int
	HlsFragmentNum     int
	HlsDeleteThreshold int
	HlsCleanupMode     int

	RecordFlv, RecordTs bool

	DummyAudio       bool
	DummyAudioWaitMs int

	RtspNoWaitKeyFrame bool
	RtspAuth           rtsp.ServerAuthConfig

	SimpleAuth logic.SimpleAuthConfig

	PushAddrs []string // relay push targets (host:port)
	PullAddr  string   // static relay pull origin

	Hook bool // install a stream hook (recorded in Server.Hook*)

	// Mod lets a check adjust the final lal configuration directly.
	Mod func(c *logic.Config) `json:"-"`
}

// Panic records a panic recovered in a harness-owned session goroutine.
type Panic struct {
	Value interface{}
	Stack string
	Where string
}

// Server is one in-process lal instance.
type Server struct {
	SM     *logic.ServerManager
	Dir    string // scratch root (removed by Close)
	Cfg    *logic.Config
	Notify *NotifyRecorder

	rtmpSrv *rtmp.Server
	rtspSrv *rtsp.Server
	httpH   *logic.HttpServerHandler

	mu     sync.Mutex
	panics []Panic
	conns  []*memconn.Conn
	wg     sync.WaitGroup

	HookMu     sync.Mutex
	HookStarts int
	HookStops  int
	HookMsgs   int

	portSeq int
}

var dirSeq struct {
	sync.Mutex
	n int
}

// New creates the manager (no RunLoop, no listeners).
func New(c Config) *Server {
	dirSeq.Lock()
	dirSeq.n++
	n := dirSeq.n
	dirSeq.Unlock()
	root := os.Getenv("VERIF_SCRATCH")
	if root == "" {
		root = os.TempDir()
	}
	if n == 1 {
		cleanStale(root)
	}
	dir := filepath.Join(root, fmt.Sprintf("lalverif-%d-%d", os.Getpid(), n))
	_ = os.RemoveAll(dir)
	if err := os.MkdirAll(dir, 0o755); err != nil {
		panic(pbt.HarnessError{Msg: "mkdir scratch: " + err.Error()})
	}
	var lc logic.Config
	lc.ConfVersion = base.ConfVersion
	lc.RtmpConfig = logic.RtmpConfig{Enable: !c.DisableRtmp, Addr: "127.0.0.1:0", GopNum: c.RtmpGopNum, SingleGopMaxFrameNum: c.RtmpGopMaxFrame, MergeWriteSize: c.RtmpMergeWrite}
	lc.InSessionConfig = logic.InSessionConfig{AddDummyAudioEnable: c.DummyAudio, AddDummyAudioWaitAudioMs: c.DummyAudioWaitMs}
	lc.DefaultHttpConfig.HttpListenAddr = "127.0.0.1:0"
	lc.HttpflvConfig.Enable = !c.DisableFlv
	lc.HttpflvConfig.UrlPattern = "/"
	lc.HttpflvConfig.GopNum, lc.HttpflvConfig.SingleGopMaxFrameNum = c.FlvGopNum, c.FlvGopMaxFrame
	lc.HttptsConfig.Enable = !c.DisableTs
	lc.HttptsConfig.UrlPattern = "/"
	lc.HttptsConfig.GopNum, lc.HttptsConfig.SingleGopMaxFrameNum = c.TsGopNum, c.TsGopMaxFrame
	lc.HlsConfig.Enable = c.Hls
	lc.HlsConfig.UrlPattern = "/hls/"
	lc.HlsConfig.OutPath = filepath.Join(dir, "hls") + "/"
	lc.HlsConfig.FragmentDurationMs = pick(c.HlsFragmentMs, 3000)
	lc.HlsConfig.FragmentNum = pick(c.HlsFragmentNum, 6)
	lc.HlsConfig.DeleteThreshold = c.HlsDeleteThreshold
	lc.HlsConfig.CleanupMode = c.HlsCleanupMode
	lc.RtspConfig.Enable = !c.DisableRtsp
	lc.RtspConfig.Addr = "127.0.0.1:0"
	lc.RtspConfig.OutWaitKeyFrameFlag = !c.RtspNoWaitKeyFrame
	lc.RtspConfig.ServerAuthConfig = c.RtspAuth
	lc.RecordConfig = logic.RecordConfig{EnableFlv: c.RecordFlv, FlvOutPath: filepath.Join(dir, "flv") + "/", EnableMpegts: c.RecordTs, MpegtsOutPath: filepath.Join(dir, "ts") + "/"}
	lc.RelayPushConfig = logic.RelayPushConfig{Enable: len(c.PushAddrs) > 0, AddrList: c.PushAddrs}
	lc.StaticRelayPullConfig = logic.StaticRelayPullConfig{Enable: c.PullAddr != "", Addr: c.PullAddr}
	lc.ServerId = "verif"
	lc.SimpleAuthConfig = c.SimpleAuth
	lc.LogConfig = nazalog.Option{Level: nazalog.LevelFatal, Filename: "", IsToStdout: false, AssertBehavior: nazalog.AssertError}
	if c.Mod != nil {
		c.Mod(&lc)
	}
	m := map[string]interface{}{
		"conf_version": lc.ConfVersion, "rtmp": lc.RtmpConfig, "in_session": lc.InSessionConfig, "default_http": lc.DefaultHttpConfig,
		"httpflv": lc.HttpflvConfig, "hls": lc.HlsConfig, "httpts": lc.HttptsConfig, "rtsp": lc.RtspConfig, "record": lc.RecordConfig,
		"relay_push": lc.RelayPushConfig, "static_relay_pull": lc.StaticRelayPullConfig, "http_api": lc.HttpApiConfig,
		"server_id": lc.ServerId, "http_notify": lc.HttpNotifyConfig, "simple_auth": lc.SimpleAuthConfig, "pprof": lc.PprofConfig,
		"debug": lc.DebugConfig,
		"log": map[string]interface{}{"level": 6, "filename": "", "is_to_stdout": false, "is_rotate_daily": false, "short_file_flag": false,
			"timestamp_flag": false, "timestamp_with_ms_flag": false, "level_flag": false, "assert_behavior": 1},
	}
	raw, err := json.Marshal(m)
	if err != nil {
		panic(pbt.HarnessError{Msg: err.Error()})
	}

	s := &Server{Dir: dir, Cfg: &lc, Notify: &NotifyRecorder{}}
	s.SM = logic.NewServerManager(func(o *logic.Option) {
		o.ConfRawContent = raw
		o.NotifyHandler = s.Notify
	})
	if c.Hook {
		s.SM.WithOnHookSession(func(uniqueKey, streamName string) logic.ICustomizeHookSessionContext {
			s.HookMu.Lock()
			s.HookStarts++
			s.HookMu.Unlock()
			return &hookCtx{s: s}
		})
	}
	s.rtmpSrv = rtmp.NewServer("", s.SM)
	s.rtspSrv = rtsp.NewServer("", s.SM, lc.RtspConfig.ServerAuthConfig)
	s.httpH = logic.NewHttpServerHandler(s.SM)
	return s
}

type hookCtx struct{ s *Server }

func (h *hookCtx) OnMsg(msg base.RtmpMsg) {
	h.s.HookMu.Lock()
	h.s.HookMsgs++
	h.s.HookMu.Unlock()
}
func (h *hookCtx) OnStop() {
	h.s.HookMu.Lock()
	h.s.HookStops++
	h.s.HookMu.Unlock()
}

func pick(v, def int) int {
	if v == 0 {
		return def
	}
	return v
}

func (s *Server) nextClientAddr() string {
	s.mu.Lock()
	defer s.mu.Unlock()
	s.portSeq++
	return fmt.Sprintf("127.0.0.1:%d", 40000+s.portSeq)
}

// run starts f in a harness-owned goroutine; a panic is recorded.
func (s *Server) run(where string, srvEnd *memconn.Conn, f func()) {
	s.wg.Add(1)
	go func() {
		defer s.wg.Done()
		defer func() {
			if r := recover(); r != nil {
				s.mu.Lock()
				s.panics = append(s.panics, Panic{Value: r, Stack: string(debug.Stack()), Where: where})
				s.mu.Unlock()
				_ = srvEnd.Close()
			}
			srvEnd.MarkDone()
		}()
		f()
	}()
}

// Go runs f in a harness-owned goroutine with panic recording (for calls into
// lal that are not tied to a connection).
func (s *Server) Go(where string, f func()) chan struct{} {
	done := make(chan struct{})
	s.wg.Add(1)
	go func() {
		defer s.wg.Done()
		defer close(done)
		defer func() {
			if r := recover(); r != nil {
				s.mu.Lock()
				s.panics = append(s.panics, Panic{Value: r, Stack: string(debug.Stack()), Where: where})
				s.mu.Unlock()
			}
		}()
		f()
	}()
	return done
}

// Call runs f synchronously, recording a panic instead of propagating it.
func (s *Server) Call(where string, f func()) (panicked bool) {
	defer func() {
		if r := recover(); r != nil {
			s.mu.Lock()
			s.panics = append(s.panics, Panic{Value: r, Stack: string(debug.Stack()), Where: where})
			s.mu.Unlock()
			panicked = true
		}
	}()
	f()
	return false
}

// RtmpConn opens a connection to the RTMP accept handler and returns the
// client end.
func (s *Server) RtmpConn() *memconn.Conn {
	cli, srv := memconn.PairAddr(s.nextClientAddr(), "127.0.0.1:1935")
	s.track(cli)
	s.run("rtmp", srv, func() { s.rtmpSrv.VerifHandleTcpConnect(srv) })
	return cli
}

// RtmpConnFrom is RtmpConn with an explicit client address.
func (s *Server) RtmpConnFrom(clientAddr string) *memconn.Conn {
	cli, srv := memconn.PairAddr(clientAddr, "127.0.0.1:1935")
	s.track(cli)
	s.run("rtmp", srv, func() { s.rtmpSrv.VerifHandleTcpConnect(srv) })
	return cli
}

// RtspConn opens a connection to the RTSP accept handler.
func (s *Server) RtspConn() *memconn.Conn {
	cli, srv := memconn.PairAddr(s.nextClientAddr(), "127.0.0.1:5544")
	s.track(cli)
	s.run("rtsp", srv, func() { s.rtspSrv.VerifHandleTcpConnect(srv) })
	return cli
}

func (s *Server) track(c *memconn.Conn) {
	s.mu.Lock()
	s.conns = append(s.conns, c)
	s.mu.Unlock()
}

// hijackWriter is the http.ResponseWriter handed to lal's HTTP handlers.
type hijackWriter struct {
	conn net.Conn
	hdr  http.Header
}

func (h *hijackWriter) Header() http.Header         { return h.hdr }
func (h *hijackWriter) Write(b []byte) (int, error) { return h.conn.Write(b) }
func (h *hijackWriter) WriteHeader(statusCode int)  {}
func (h *hijackWriter) Hijack() (net.Conn, *bufio.ReadWriter, error) {
	return h.conn, bufio.NewReadWriter(bufio.NewReader(h.conn), bufio.NewWriter(h.conn)), nil
}

// HttpSub issues GET <pathWithQuery> (e.g. "/live/test.flv?x=1") to lal's
// HTTP-FLV / HTTP-TS handler, optionally as a WebSocket upgrade, and returns
// the client end on which the response (header + body) arrives.
func (s *Server) HttpSub(pathWithQuery string, websocket bool) *memconn.Conn {
	return s.HttpSubWindow(pathWithQuery, websocket, -1)
}

// HttpSubWindow is HttpSub with the client's receive window set before lal's handler starts (memconn.SetRecvWindow;
// 0 = a peer that accepts nothing: everything lal writes stays in lal's own write queue until the window is opened).
func (s *Server) HttpSubWindow(pathWithQuery string, websocket bool, window int) *memconn.Conn {
	cli, srv := memconn.PairAddr(s.nextClientAddr(), "127.0.0.1:8080")
	cli.SetRecvWindow(window)
	s.track(cli)
	req, err := http.NewRequest("GET", "http://127.0.0.1:8080"+pathWithQuery, nil)
	if err != nil {
		panic(pbt.HarnessError{Msg: "bad http path: " + err.Error()})
	}
	req.RequestURI = pathWithQuery
	req.Host = "127.0.0.1:8080"
	req.RemoteAddr = srv.RemoteAddr().String()
	if websocket {
		req.Header.Set("Connection", "Upgrade")
		req.Header.Set("Upgrade", "websocket")
		req.Header.Set("Sec-WebSocket-Key", "dGhlIHNhbXBsZSBub25jZQ==")
		req.Header.Set("Sec-WebSocket-Version", "13")
	}
	s.run("http-sub", srv, func() {
		s.httpH.ServeSubSession(&hijackWriter{conn: srv, hdr: http.Header{}}, req)
		_ = srv.Close()
	})
	return cli
}

// WsRtspConn opens an RTSP-over-WebSocket connection: lal's rtsp.WebsocketServer.HandleWebsocket is run on a
// hijacked in-memory connection.  The returned client end first receives the HTTP 101 response, then WebSocket
// frames; the client has to send its RTSP requests in (masked) WebSocket frames.
func (s *Server) WsRtspConn() *memconn.Conn {
	cli, srv := memconn.PairAddr(s.nextClientAddr(), "127.0.0.1:5566")
	s.track(cli)
	req, _ := http.NewRequest("GET", "http://127.0.0.1:5566/", nil)
	req.RequestURI = "/"
	req.Host = "127.0.0.1:5566"
	req.RemoteAddr = srv.RemoteAddr().String()
	req.Header.Set("Connection", "Upgrade")
	req.Header.Set("Upgrade", "websocket")
	req.Header.Set("Sec-WebSocket-Key", "dGhlIHNhbXBsZSBub25jZQ==")
	req.Header.Set("Sec-WebSocket-Version", "13")
	req.Header.Set("Sec-WebSocket-Protocol", "rtsp")
	ws := rtsp.NewWebsocketServer("", s.SM, s.Cfg.RtspConfig.ServerAuthConfig)
	s.run("ws-rtsp", srv, func() {
		ws.HandleWebsocket(&hijackWriter{conn: srv, hdr: http.Header{}}, req)
		_ = srv.Close()
	})
	return cli
}

// Panics returns the panics recovered so far.
func (s *Server) Panics() []Panic {
	s.mu.Lock()
	defer s.mu.Unlock()
	return append([]Panic(nil), s.panics...)
}

// PanicViolation converts the first recorded panic into a violation (nil if
// none).  A panic without a lal frame is a harness bug.
func (s *Server) PanicViolation() *pbt.Violation {
	ps := s.Panics()
	if len(ps) == 0 {
		return nil
	}
	p := ps[0]
	v := pbt.PanicViolation(p.Value, p.Stack)
	if v == nil {
		panic(pbt.HarnessError{Msg: fmt.Sprintf("panic in harness goroutine (%s) without lal frame: %v\n%s", p.Where, p.Value, p.Stack)})
	}
	return v
}

// Close tears the instance down: closes client ends, disposes the manager,
// waits (bounded) for harness goroutines, removes the scratch directory.
func (s *Server) Close() {
	s.mu.Lock()
	conns := append([]*memconn.Conn(nil), s.conns...)
	s.mu.Unlock()
	for _, c := range conns {
		_ = c.Close()
	}
	done := make(chan struct{})
	go func() {
		defer func() { _ = recover(); close(done) }()
		s.SM.Dispose()
	}()
	select {
	case <-done:
	case <-time.After(10 * time.Second):
	}
	w := make(chan struct{})
	go func() { s.wg.Wait(); close(w) }()
	select {
	case <-w:
	case <-time.After(5 * time.Second):
	}
	_ = os.RemoveAll(s.Dir)
}

// WaitSessions waits until every harness-owned session goroutine has returned.
func (s *Server) WaitSessions(d time.Duration) bool {
	w := make(chan struct{})
	go func() { s.wg.Wait(); close(w) }()
	select {
	case <-w:
		return true
	case <-time.After(d):
		return false
	}
}

// UseFakeHlsClock replaces hls.Clock by naza's fake clock (it only feeds segment
// file names) and returns it with a restore function.
func UseFakeHlsClock() (clk mock.Clock, restore func()) {
	prev := hls.Clock
	fc := mock.NewFakeClock()
	fc.Set(time.Unix(1700000000, 0))
	hls.Clock = fc
	return fc, func() { hls.Clock = prev }
}

// ---------------------------------------------------------------------------

// Event is one recorded notification.
type Event struct {
	Kind      string // pub_start pub_stop sub_start sub_stop pull_start pull_stop rtmp_connect hls_make_ts update server_start
	SessionID string
	Stream    string
	Protocol  string
}

// NotifyRecorder implements logic.INotifyHandler.
type NotifyRecorder struct {
	mu     sync.Mutex
	events []Event
}

func (n *NotifyRecorder) add(e Event) {
	n.mu.Lock()
	n.events = append(n.events, e)
	n.mu.Unlock()
}

// Events returns a copy of the events recorded so far.
func (n *NotifyRecorder) Events() []Event {
	n.mu.Lock()
	defer n.mu.Unlock()
	return append([]Event(nil), n.events...)
}

func (n *NotifyRecorder) OnServerStart(info base.LalInfo) { n.add(Event{Kind: "server_start"}) }
func (n *NotifyRecorder) OnUpdate(info base.UpdateInfo)   {}
func (n *NotifyRecorder) OnPubStart(info base.PubStartInfo) {
	n.add(Event{Kind: "pub_start", SessionID: info.SessionId, Stream: info.StreamName, Protocol: info.Protocol})
}
func (n *NotifyRecorder) OnPubStop(info base.PubStopInfo) {
	n.add(Event{Kind: "pub_stop", SessionID: info.SessionId, Stream: info.StreamName, Protocol: info.Protocol})
}
func (n *NotifyRecorder) OnSubStart(info base.SubStartInfo) {
	n.add(Event{Kind: "sub_start", SessionID: info.SessionId, Stream: info.StreamName, Protocol: info.Protocol})
}
func (n *NotifyRecorder) OnSubStop(info base.SubStopInfo) {
	n.add(Event{Kind: "sub_stop", SessionID: info.SessionId, Stream: info.StreamName, Protocol: info.Protocol})
}
func (n *NotifyRecorder) OnRelayPullStart(info base.PullStartInfo) {
	n.add(Event{Kind: "pull_start", SessionID: info.SessionId, Stream: info.StreamName, Protocol: info.Protocol})
}
func (n *NotifyRecorder) OnRelayPullStop(info base.PullStopInfo) {
	n.add(Event{Kind: "pull_stop", SessionID: info.SessionId, Stream: info.StreamName, Protocol: info.Protocol})
}
func (n *NotifyRecorder) OnRtmpConnect(info base.RtmpConnectInfo) {
	n.add(Event{Kind: "rtmp_connect", SessionID: info.SessionId, Stream: info.App})
}
func (n *NotifyRecorder) OnHlsMakeTs(info base.HlsMakeTsInfo) {
	n.add(Event{Kind: "hls_make_ts", Stream: info.StreamName})
}

// cleanStale removes scratch directories left by processes that no longer
// exist (killed on a timeout before they could clean up).
func cleanStale(root string) {
	ents, err := os.ReadDir(root)
	if err != nil {
		return
	}
	for _, e := range ents {
		var pid, n int
		if _, err := fmt.Sscanf(e.Name(), "lalverif-%d-%d", &pid, &n); err != nil {
			continue
		}
		if pid == os.Getpid() {
			continue
		}
		if _, err := os.Stat(fmt.Sprintf("/proc/%d", pid)); err == nil {
			continue // still running
		}
		_ = os.RemoveAll(filepath.Join(root, e.Name()))
	}
}
