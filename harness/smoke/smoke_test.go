package smoke

import (
	"fmt"
	"testing"
	"time"

	"pgregory.net/rapid"
	"verif/gen"
	"verif/harness/inproc"
	"verif/harness/lalclient"
	"verif/ref/rtpref"
	"verif/ref/rtspref"
)

// RTMP publish -> RTSP interleaved subscriber
func TestRtmpToRtsp(t *testing.T) {
	s := inproc.New(inproc.Config{})
	defer s.Close()
	var cd gen.Codecs
	var items []gen.Item
	rapid.Check(t, func(rt *rapid.T) {
		cd, items = gen.GenStream(rt, gen.StreamOpts{Video: []string{"avc"}, Audio: []string{"aac"}, MaxGops: 3})
	})
	p := lalclient.NewPublisher(s, "live", "smoke", 4096)
	if p.Err != nil {
		t.Fatal(p.Err)
	}
	for _, it := range items {
		if err := p.SendItem(it, cd, 0); err != nil {
			t.Fatal(err)
		}
	}
	p.WaitIdle()
	conn := s.RtspConn()
	_ = conn.SetReadDeadline(time.Now().Add(5 * time.Second))
	c := rtspref.NewClient(conn)
	r, err := c.Describe("rtsp://127.0.0.1:5544/live/smoke")
	if err != nil || r.Status != 200 {
		t.Fatalf("describe: %v %+v", err, r)
	}
	fmt.Printf("SDP:\n%s\n", r.Body)
	if err := c.SetupPlay("rtsp://127.0.0.1:5544/live/smoke", rtspref.SdpControls(r.Body)); err != nil {
		t.Fatal(err)
	}
	conn.WaitPeerIdle(5 * time.Second)
	for _, it := range items {
		if it.Kind == "video" || it.Kind == "audio" {
			it.Ts += 10000
			_ = p.SendItem(it, cd, 0)
		}
	}
	p.WaitIdle()
	n := 0
	for i := 0; i < 5; i++ {
		f, err := c.ReadFrame()
		if err != nil {
			t.Fatalf("read frame: %v (got %d)", err, n)
		}
		pk, err := rtpref.Parse(f.Payload)
		fmt.Printf("frame ch=%d len=%d pt=%v err=%v\n", f.Channel, len(f.Payload), pk.PT, err)
		n++
	}
	if v := s.PanicViolation(); v != nil {
		t.Fatal(v)
	}
}

// RTSP publish -> RTMP subscriber
func TestRtspToRtmp(t *testing.T) {
	s := inproc.New(inproc.Config{})
	defer s.Close()
	sub := lalclient.NewRtmpSub(s, "live", "smoke2")
	conn := s.RtspConn()
	_ = conn.SetReadDeadline(time.Now().Add(5 * time.Second))
	c := rtspref.NewClient(conn)
	_, sps, pps := gen.ParamSets("avc", 0)
	tracks := []rtspref.Track{{Media: "video", PT: 96, Encoding: "H264", ClockRate: 90000, Fmtp: rtspref.H264Fmtp(sps, pps), Control: "streamid=0"}}
	if r, err := c.Publish("rtsp://127.0.0.1:5544/live/smoke2", tracks); err != nil {
		t.Fatalf("publish: %v %+v", err, r)
	}
	seq := &rtpref.Sequencer{}
	_ = seq
	for i := 0; i < 10; i++ {
		nal := gen.NalSpec{Hdr: []byte{0x65}, Len: 100, Seed: uint32(i), Serial: uint32(i)}.Bytes()
		if i%3 != 0 {
			nal[0] = 0x41
		}
		pl, _ := rtpref.H264Single(nal)
		pk := &rtpref.Packet{PT: 96, Seq: uint16(i), TS: uint32(i * 3600), SSRC: 1, Marker: true, Payload: pl}
		if err := c.WriteFrame(0, pk.Marshal()); err != nil {
			t.Fatal(err)
		}
	}
	conn.WaitPeerIdle(5 * time.Second)
	time.Sleep(50 * time.Millisecond)
	for _, r := range sub.Recs() {
		fmt.Println(r)
	}
	if v := s.PanicViolation(); v != nil {
		t.Fatal(v)
	}
}
