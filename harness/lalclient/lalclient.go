// Package lalclient holds the protocol clients the server-level checks use to
// talk to an in-process lal instance: an RTMP publisher, and RTMP / HTTP-FLV /
// WebSocket-FLV subscribers that decode what they receive with the reference
// parsers in /verif/ref.
package lalclient

import (
	"bytes"
	"fmt"
	"io"
	"sync"
	"time"

	"verif/drv/pbt"
	"verif/gen"
	"verif/harness/inproc"
	"verif/harness/memconn"
	"verif/ref/flvref"
	"verif/ref/rtmpref"
	"verif/ref/wsref"
)

// Rec is one received (or published) message in protocol-neutral form.
type Rec struct {
	Type    uint8
	Ts      uint32
	Payload []byte
}

func (r Rec) String() string {
	n := len(r.Payload)
	p := r.Payload
	if n > 12 {
		p = p[:12]
	}
	return fmt.Sprintf("{type=%d ts=%d len=%d % x}", r.Type, r.Ts, n, p)
}

// IdleTimeout bounds every wait for lal to consume input.
var IdleTimeout = 30 * time.Second

// DeliverTimeout bounds the wait for data lal has already queued for a
// consumer to be decoded by it.  Healthy delivery takes milliseconds; the bound
// is generous so that a heavily loaded machine does not turn into a violation.
var DeliverTimeout = 30 * time.Second

// ---------------------------------------------------------------------------
// Publisher

type Publisher struct {
	Conn   *memconn.Conn
	C      *rtmpref.Client
	Codecs gen.Codecs
	Err    error
}

// NewPublisher connects, optionally announces chunkSize (>0), and publishes
// app/name.  Err is set if the handshake/commands failed (e.g. refused).
func NewPublisher(s *inproc.Server, app, nameWithQuery string, chunkSize int) *Publisher {
	conn := s.RtmpConn()
	p := &Publisher{Conn: conn, C: rtmpref.NewClient(conn)}
	_ = conn.SetReadDeadline(time.Now().Add(IdleTimeout))
	steps := []func() error{
		p.C.Handshake,
		func() error { return p.C.Connect(app, "rtmp://127.0.0.1/"+app) },
		func() error {
			if chunkSize > 0 {
				return p.C.SetChunkSize(chunkSize)
			}
			return nil
		},
		p.C.CreateStream,
		func() error { return p.C.Publish(nameWithQuery) },
	}
	for _, st := range steps {
		if err := st(); err != nil {
			p.Err = err
			return p
		}
	}
	_ = conn.SetReadDeadline(time.Time{})
	// the session is attached once the server is back in Read
	p.WaitIdle()
	return p
}

// FlushNotifications pushes a sentinel through lal's single-worker notification
// queue (an RTMP connect with a unique app name) and waits until the recorder
// has seen it: every notification queued before has then been delivered.
func FlushNotifications(s *inproc.Server, tag string) bool {
	conn := s.RtmpConn()
	c := rtmpref.NewClient(conn)
	_ = conn.SetReadDeadline(time.Now().Add(IdleTimeout))
	if err := c.Handshake(); err != nil {
		return false
	}
	if err := c.Connect(tag, "rtmp://127.0.0.1/"+tag); err != nil {
		return false
	}
	deadline := time.Now().Add(IdleTimeout)
	for time.Now().Before(deadline) {
		for _, e := range s.Notify.Events() {
			if e.Kind == "rtmp_connect" && e.Stream == tag {
				_ = conn.Close()
				conn.WaitPeerDone(IdleTimeout)
				return true
			}
		}
		time.Sleep(200 * time.Microsecond)
	}
	return false
}

// WaitIdle blocks until lal has processed everything sent so far (or the
// session is gone).  A timeout is a harness-level inconclusive condition
// unless the caller interprets it (C05/C15 do).
func (p *Publisher) WaitIdle() bool {
	return p.Conn.WaitPeerIdle(IdleTimeout)
}

// Csid per message type, as common encoders do.
func csidFor(typ uint8) int {
	switch typ {
	case gen.TypeAudio:
		return 4
	case gen.TypeVideo:
		return 6
	default:
		return 5
	}
}

// Send publishes one message; fmtWish selects among the header formats the
// specification allows at this point (index modulo the allowed set).
func (p *Publisher) Send(typ uint8, ts uint32, payload []byte, fmtWish int) error {
	m := rtmpref.Msg{Csid: csidFor(typ), TypeID: typ, StreamID: 1, Ts: ts, Payload: payload}
	allowed := p.C.W.AllowedFmts(m)
	if fmtWish < 0 {
		fmtWish = -fmtWish
	}
	f := allowed[fmtWish%len(allowed)]
	return p.C.SendMsg(m, f)
}

// SendItem publishes a generated item.
func (p *Publisher) SendItem(it gen.Item, c gen.Codecs, fmtWish int) error {
	return p.Send(it.TypeID(), it.Ts, it.Payload(c), fmtWish)
}

// Close disconnects the publisher.
func (p *Publisher) Close() { _ = p.Conn.Close() }

// ---------------------------------------------------------------------------
// consumers

// Consumer is a subscriber that decodes in a background goroutine.
type Consumer struct {
	Kind string // "rtmp" | "flv" | "wsflv"
	Conn *memconn.Conn

	mu      sync.Mutex
	cond    *sync.Cond
	recs    []Rec
	err     error // framing / protocol error found by the reference decoder
	eof     bool
	rawLen  int
	HTTPHdr string
	// WS frames seen (wsflv)
	WsFrames int
	joinErr  error
}

func newConsumer(kind string, conn *memconn.Conn) *Consumer {
	c := &Consumer{Kind: kind, Conn: conn}
	c.cond = sync.NewCond(&c.mu)
	return c
}

func (c *Consumer) add(r Rec) {
	c.mu.Lock()
	c.recs = append(c.recs, r)
	c.cond.Broadcast()
	c.mu.Unlock()
}

func (c *Consumer) finish(err error) {
	c.mu.Lock()
	if err != nil && err != io.EOF && c.err == nil {
		c.err = err
	}
	c.eof = true
	c.cond.Broadcast()
	c.mu.Unlock()
}

// JoinErr reports a failure to complete the subscribe handshake.
func (c *Consumer) JoinErr() error { return c.joinErr }

// Recs returns what has been decoded so far.
func (c *Consumer) Recs() []Rec {
	c.mu.Lock()
	defer c.mu.Unlock()
	return append([]Rec(nil), c.recs...)
}

// Err returns the decoder's framing error, if any.
func (c *Consumer) Err() error {
	c.mu.Lock()
	defer c.mu.Unlock()
	return c.err
}

// Ended reports whether the connection reached EOF / error.
func (c *Consumer) Ended() bool {
	c.mu.Lock()
	defer c.mu.Unlock()
	return c.eof
}

// WaitFor blocks until pred is true for some decoded record (returns its
// index), the stream ends, or the timeout expires (-1).
func (c *Consumer) WaitFor(pred func(Rec) bool, timeout time.Duration) int {
	deadline := time.Now().Add(timeout)
	t := time.AfterFunc(timeout, func() { c.mu.Lock(); c.cond.Broadcast(); c.mu.Unlock() })
	defer t.Stop()
	c.mu.Lock()
	defer c.mu.Unlock()
	next := 0
	for {
		for ; next < len(c.recs); next++ {
			if pred(c.recs[next]) {
				return next
			}
		}
		if c.eof || !time.Now().Before(deadline) {
			return -1
		}
		c.cond.Wait()
	}
}

// WaitEnded waits for EOF.
func (c *Consumer) WaitEnded(timeout time.Duration) bool {
	deadline := time.Now().Add(timeout)
	t := time.AfterFunc(timeout, func() { c.mu.Lock(); c.cond.Broadcast(); c.mu.Unlock() })
	defer t.Stop()
	c.mu.Lock()
	defer c.mu.Unlock()
	for !c.eof {
		if !time.Now().Before(deadline) {
			return false
		}
		c.cond.Wait()
	}
	return true
}

// Close leaves.
func (c *Consumer) Close() { _ = c.Conn.Close() }

// NewRtmpSub plays app/name and starts decoding.
func NewRtmpSub(s *inproc.Server, app, nameWithQuery string) *Consumer {
	conn := s.RtmpConn()
	c := newConsumer("rtmp", conn)
	cl := rtmpref.NewClient(conn)
	_ = conn.SetReadDeadline(time.Now().Add(IdleTimeout))
	for _, st := range []func() error{
		cl.Handshake,
		func() error { return cl.Connect(app, "rtmp://127.0.0.1/"+app) },
		cl.CreateStream,
		func() error { return cl.Play(nameWithQuery) },
	} {
		if err := st(); err != nil {
			c.joinErr = err
			c.finish(nil)
			return c
		}
	}
	_ = conn.SetReadDeadline(time.Time{})
	conn.WaitPeerIdle(IdleTimeout) // admission callback has returned
	go func() {
		for {
			m, err := cl.ReadMedia()
			if err != nil {
				if err == io.ErrUnexpectedEOF {
					// connection closed inside a chunk: only a framing error if bytes remained undecodable
					// while the peer closed in the middle of a message. lal closes between writes, so
					// a cut inside a chunk is reported.
					c.finish(fmt.Errorf("rtmp chunk stream ended inside a chunk"))
				} else {
					c.finish(filterClosed(err))
				}
				return
			}
			if m.TypeID == rtmpref.TypeAggregate {
				c.finish(fmt.Errorf("unexpected aggregate message from lal"))
				return
			}
			c.add(Rec{Type: m.TypeID, Ts: m.Ts, Payload: m.Payload})
		}
	}()
	return c
}

func filterClosed(err error) error {
	if err == nil || err == io.EOF {
		return nil
	}
	s := err.Error()
	if bytes.Contains([]byte(s), []byte("closed")) {
		return nil
	}
	return err
}

// NewFlvSub issues GET /app/name.flv (optionally as WebSocket) and starts decoding.
func NewFlvSub(s *inproc.Server, app, nameWithQuery string, ws bool) *Consumer {
	name, query := nameWithQuery, ""
	if i := bytes.IndexByte([]byte(nameWithQuery), '?'); i >= 0 {
		name, query = nameWithQuery[:i], nameWithQuery[i:]
	}
	return newFlvSubOn(s.HttpSub("/"+app+"/"+name+".flv"+query, ws), ws)
}

// NewFlvSubStalled is NewFlvSub for a peer whose receive window is closed from the start: lal admits it, queues
// what it hands to the session, and can deliver nothing until Conn.SetRecvWindow(-1) opens the window.
func NewFlvSubStalled(s *inproc.Server, app, name string, ws bool) *Consumer {
	return newFlvSubOn(s.HttpSubWindow("/"+app+"/"+name+".flv", ws, 0), ws)
}

func newFlvSubOn(conn *memconn.Conn, ws bool) *Consumer {
	kind := "flv"
	if ws {
		kind = "wsflv"
	}
	c := newConsumer(kind, conn)
	conn.WaitPeerIdle(IdleTimeout) // admission done, handler parked in RunLoop
	go func() {
		var hdrBuf []byte
		hdrDone := false
		fp := &flvref.Parser{Strict: true}
		var wp wsref.Parser
		buf := make([]byte, 64*1024)
		for {
			n, err := conn.Read(buf)
			if n > 0 {
				data := buf[:n]
				if !hdrDone {
					hdrBuf = append(hdrBuf, data...)
					i := bytes.Index(hdrBuf, []byte("\r\n\r\n"))
					if i < 0 {
						if err != nil {
							c.finish(filterClosed(err))
							return
						}
						continue
					}
					c.HTTPHdr = string(hdrBuf[:i+4])
					data = hdrBuf[i+4:]
					hdrDone = true
				}
				if ws {
					frames, werr := wp.Feed(data)
					if werr != nil {
						c.finish(fmt.Errorf("websocket framing: %w", werr))
						return
					}
					data = nil
					for _, f := range frames {
						c.mu.Lock()
						c.WsFrames++
						c.mu.Unlock()
						if !f.Fin || f.Opcode != wsref.OpBinary || f.Masked {
							c.finish(fmt.Errorf("websocket frame not a final unmasked binary frame: fin=%v opcode=%d masked=%v", f.Fin, f.Opcode, f.Masked))
							return
						}
						if wsref.MinimalLenForm(f.PayloadLen) != f.LenForm {
							c.finish(fmt.Errorf("websocket frame length %d encoded in %d-bit form", f.PayloadLen, f.LenForm))
							return
						}
						data = append(data, f.Payload...)
					}
				}
				tags, ferr := fp.Feed(data)
				for _, tg := range tags {
					c.add(Rec{Type: tg.TagType(), Ts: tg.Timestamp, Payload: tg.Data})
				}
				if ferr != nil {
					c.finish(fmt.Errorf("flv framing: %w", ferr))
					return
				}
			}
			if err != nil {
				if len(fp.Pending()) > 0 || len(wp.Pending()) > 0 {
					c.mu.Lock()
					c.rawLen = len(fp.Pending()) + len(wp.Pending())
					c.mu.Unlock()
				}
				c.finish(filterClosed(err))
				return
			}
		}
	}()
	return c
}

// TrailingPartial returns the number of bytes of an incomplete unit left when
// the stream ended (0 = ended on a unit boundary).
func (c *Consumer) TrailingPartial() int {
	c.mu.Lock()
	defer c.mu.Unlock()
	return c.rawLen
}

// ParseFlvFile decodes an FLV recording.
func ParseFlvFile(b []byte) ([]Rec, error) {
	h, tags, rest, err := flvref.ParseStream(b)
	if err != nil {
		return nil, err
	}
	if err := h.Validate(); err != nil {
		return nil, err
	}
	var out []Rec
	for _, t := range tags {
		if err := t.Validate(); err != nil {
			return out, err
		}
		out = append(out, Rec{Type: t.TagType(), Ts: t.Timestamp, Payload: t.Data})
	}
	if len(rest) != 0 {
		return out, fmt.Errorf("flv file: %d trailing bytes do not form a tag", len(rest))
	}
	return out, nil
}

// Harness is raised for conditions that are the harness' fault.
func Harness(format string, a ...interface{}) {
	panic(pbt.HarnessError{Msg: fmt.Sprintf(format, a...)})
}

// ---------------------------------------------------------------------------
// HTTP-TS consumer: collects the raw body; demuxing happens in the oracle.

type TsConsumer struct {
	Conn    *memconn.Conn
	mu      sync.Mutex
	cond    *sync.Cond
	body    []byte
	HTTPHdr string
	eof     bool
}

// NewTsSub issues GET /app/name.ts and starts collecting.
func NewTsSub(s *inproc.Server, app, nameWithQuery string) *TsConsumer {
	name, query := nameWithQuery, ""
	if i := bytes.IndexByte([]byte(nameWithQuery), '?'); i >= 0 {
		name, query = nameWithQuery[:i], nameWithQuery[i:]
	}
	conn := s.HttpSub("/"+app+"/"+name+".ts"+query, false)
	c := &TsConsumer{Conn: conn}
	c.cond = sync.NewCond(&c.mu)
	conn.WaitPeerIdle(IdleTimeout)
	go func() {
		var hdrBuf []byte
		hdrDone := false
		buf := make([]byte, 64*1024)
		for {
			n, err := conn.Read(buf)
			if n > 0 {
				data := buf[:n]
				c.mu.Lock()
				if !hdrDone {
					hdrBuf = append(hdrBuf, data...)
					if i := bytes.Index(hdrBuf, []byte("\r\n\r\n")); i >= 0 {
						c.HTTPHdr = string(hdrBuf[:i+4])
						c.body = append(c.body, hdrBuf[i+4:]...)
						hdrDone = true
					}
				} else {
					c.body = append(c.body, data...)
				}
				c.cond.Broadcast()
				c.mu.Unlock()
			}
			if err != nil {
				c.mu.Lock()
				c.eof = true
				c.cond.Broadcast()
				c.mu.Unlock()
				return
			}
		}
	}()
	return c
}

// Body returns a copy of the bytes received so far.
func (c *TsConsumer) Body() []byte {
	c.mu.Lock()
	defer c.mu.Unlock()
	return append([]byte(nil), c.body...)
}

// WaitPred blocks until pred(body) holds (re-evaluated whenever new data has
// arrived), EOF, or timeout; it reports whether pred held.
func (c *TsConsumer) WaitPred(pred func(body []byte) bool, timeout time.Duration) bool {
	deadline := time.Now().Add(timeout)
	t := time.AfterFunc(timeout, func() { c.mu.Lock(); c.cond.Broadcast(); c.mu.Unlock() })
	defer t.Stop()
	c.mu.Lock()
	defer c.mu.Unlock()
	seen := -1
	for {
		if len(c.body) != seen {
			seen = len(c.body)
			if pred(c.body) {
				return true
			}
		}
		if c.eof || !time.Now().Before(deadline) {
			return false
		}
		c.cond.Wait()
	}
}

func (c *TsConsumer) Close() { _ = c.Conn.Close() }

// SplitAnnexB splits an Annex-B byte stream into NAL units (3- or 4-byte start
// codes; trailing zero bytes of a unit are dropped, as the specification
// defines them as trailing_zero_8bits).
func SplitAnnexB(b []byte) [][]byte {
	var out [][]byte
	i := 0
	start := -1
	n := len(b)
	for i+2 < n {
		if b[i] == 0 && b[i+1] == 0 && b[i+2] == 1 {
			if start >= 0 {
				end := i
				for end > start && b[end-1] == 0 {
					end--
				}
				out = append(out, b[start:end])
			}
			start = i + 3
			i += 3
			continue
		}
		i++
	}
	if start >= 0 {
		end := n
		for end > start && b[end-1] == 0 {
			end--
		}
		out = append(out, b[start:end])
	}
	return out
}
