// Package hlsfs is an instrumented filesystemlayer.IFileSystemLayer for lal's
// HLS muxer (installed through the verif hook hls.VerifSetFileSystemLayer).
//
// It wraps a real implementation (disk by default, so that errors such as
// "create inside a directory that was removed" are the real ones) and keeps a
// shadow model of everything below one root directory:
//
//   - every operation is appended to a log (mkdir, create, write, close,
//     rename, remove, remove-all, write-file, read-file);
//   - every file *generation* that ever existed is retained with all its bytes,
//     its birth and death operation and its size after every write — the
//     "shadow log": a segment's bytes stay available after lal deleted it, and
//     the state of the tree after any operation prefix can be reconstructed;
//   - a user-supplied callback runs AFTER EVERY SINGLE OPERATION, i.e. on every
//     prefix of the operation sequence.  That is exactly what a crash point or
//     a concurrent HTTP reader can observe.  WriteFile is not atomic on a real
//     file system (open with O_TRUNC, write, close), so it is presented as two
//     observable steps: the truncated (empty) file, then the complete one.
//
// The layer is a process-global inside lal: Install serialises users (cases in
// one process must not overlap) and returns the function that restores the
// previous layer.  Operations on paths outside the root (e.g. a delayed
// directory cleanup that belongs to an earlier case) are passed through to the
// wrapped layer without being recorded.
package hlsfs

import (
	"path/filepath"
	"strings"
	"sync"

	"github.com/q191201771/lal/pkg/hls"
	"github.com/q191201771/naza/pkg/filesystemlayer"
)

// Operation kinds.
const (
	OpMkdir          = "mkdir"
	OpCreate         = "create"
	OpWrite          = "write"
	OpClose          = "close"
	OpRename         = "rename"
	OpRemove         = "remove"
	OpRemoveAll      = "remove-all"
	OpWriteFileTrunc = "write-file-trunc" // first observable step of WriteFile: the file exists and is empty
	OpWriteFile      = "write-file"       // WriteFile complete
	OpReadFile       = "read-file"
)

// Op is one recorded operation.
type Op struct {
	Index   int    `json:"i"`
	Kind    string `json:"kind"`
	Path    string `json:"path"`
	NewPath string `json:"new_path,omitempty"`
	N       int    `json:"n,omitempty"`   // bytes written / read
	Err     string `json:"err,omitempty"` // error returned by the wrapped layer ("" = success)
}

type sizeAt struct{ op, n int }

// File is one generation of a file: from the operation that created it (create,
// write-file, rename target) to the one that ended it (remove, remove-all,
// being renamed away, being replaced or truncated).
type File struct {
	Path   string
	Gen    int // index in State.Files()
	Born   int // operation that created this generation
	Died   int // operation that ended it; -1 while it exists
	Data   []byte
	Open   bool // created through Create and not closed yet
	Closed bool
	From   *File // the generation this one was renamed from
	sizes  []sizeAt
}

// SizeAt returns the length of the file right after operation k.
func (f *File) SizeAt(k int) int {
	n := 0
	for _, s := range f.sizes {
		if s.op > k {
			break
		}
		n = s.n
	}
	return n
}

// DataAt returns the content right after operation k.
func (f *File) DataAt(k int) []byte { return f.Data[:f.SizeAt(k)] }

// ExistsAt reports whether the generation existed right after operation k.
func (f *File) ExistsAt(k int) bool { return f.Born <= k && (f.Died < 0 || f.Died > k) }

// State is the shadow model.  It is only valid inside the callback or inside
// Layer.With (the layer's lock is held there).
type State struct {
	Root  string
	ops   []Op
	alive map[string]*File
	all   []*File
	dirs  map[string]bool
}

// Ops returns the operation log (do not modify).
func (s *State) Ops() []Op { return s.ops }

// NumOps is the number of operations recorded so far.
func (s *State) NumOps() int { return len(s.ops) }

// Lookup returns the generation currently at path, or nil.
func (s *State) Lookup(path string) *File { return s.alive[path] }

// LookupAt returns the generation that was at path right after operation k.
func (s *State) LookupAt(path string, k int) *File {
	for i := len(s.all) - 1; i >= 0; i-- {
		f := s.all[i]
		if f.Path == path && f.ExistsAt(k) {
			return f
		}
	}
	return nil
}

// Files returns every generation that ever existed, in creation order.
func (s *State) Files() []*File { return s.all }

// DirExists reports whether path is a directory in the shadow model.
func (s *State) DirExists(path string) bool { return s.dirs[filepath.Clean(path)] }

// Callback is invoked after every operation (lock held: do not call back into
// lal or into Layer.With).
type Callback func(s *State, op Op)

// Layer implements filesystemlayer.IFileSystemLayer.
type Layer struct {
	mu    sync.Mutex
	inner filesystemlayer.IFileSystemLayer
	st    State
	cb    Callback
	calls int
}

// New wraps inner (nil = a fresh disk layer) for everything below root.
func New(root string, inner filesystemlayer.IFileSystemLayer, cb Callback) *Layer {
	if inner == nil {
		inner = filesystemlayer.FslFactory(filesystemlayer.FslTypeDisk)
	}
	root = filepath.Clean(root)
	return &Layer{inner: inner, cb: cb, st: State{Root: root, alive: map[string]*File{}, dirs: map[string]bool{}}}
}

var installMu sync.Mutex

// Install makes l the file-system layer of lal's HLS package and returns the
// function that restores the previous one.  A second Install blocks until the
// first user has restored.
func Install(l *Layer) (restore func()) {
	installMu.Lock()
	prev := hls.VerifSetFileSystemLayer(l)
	var once sync.Once
	return func() {
		once.Do(func() {
			hls.VerifSetFileSystemLayer(prev)
			installMu.Unlock()
		})
	}
}

// With runs f with the shadow state locked.
func (l *Layer) With(f func(s *State)) {
	l.mu.Lock()
	defer l.mu.Unlock()
	f(&l.st)
}

// Prefixes returns how many operation prefixes the callback has been invoked on.
func (l *Layer) Prefixes() int {
	l.mu.Lock()
	defer l.mu.Unlock()
	return l.calls
}

func (l *Layer) mine(path string) bool {
	p := filepath.Clean(path)
	return p == l.st.Root || strings.HasPrefix(p, l.st.Root+string(filepath.Separator))
}

func errStr(err error) string {
	if err == nil {
		return ""
	}
	return err.Error()
}

// record appends the operation and runs the callback (lock held).
func (l *Layer) record(op Op) {
	op.Index = len(l.st.ops)
	l.st.ops = append(l.st.ops, op)
	l.calls++
	if l.cb != nil {
		l.cb(&l.st, op)
	}
}

func (l *Layer) next() int { return len(l.st.ops) }

func (s *State) kill(f *File, k int) {
	if f == nil || f.Died >= 0 {
		return
	}
	f.Died = k
	if s.alive[f.Path] == f {
		delete(s.alive, f.Path)
	}
}

func (s *State) born(path string, k int) *File {
	if old := s.alive[path]; old != nil {
		s.kill(old, k)
	}
	f := &File{Path: path, Gen: len(s.all), Born: k, Died: -1, sizes: []sizeAt{{k, 0}}}
	s.all = append(s.all, f)
	s.alive[path] = f
	return f
}

func (s *State) addDir(path string) {
	for p := filepath.Clean(path); p != "/" && p != "."; p = filepath.Dir(p) {
		s.dirs[p] = true
		if p == s.Root {
			break
		}
	}
}

func (l *Layer) Type() filesystemlayer.FslType { return l.inner.Type() }

type handle struct {
	l     *Layer
	inner filesystemlayer.IFile
	f     *File
}

func (l *Layer) Create(name string) (filesystemlayer.IFile, error) {
	if !l.mine(name) {
		return l.inner.Create(name)
	}
	name = filepath.Clean(name)
	l.mu.Lock()
	defer l.mu.Unlock()
	fp, err := l.inner.Create(name)
	k := l.next()
	var h *handle
	if err == nil {
		f := l.st.born(name, k)
		f.Open = true
		h = &handle{l: l, inner: fp, f: f}
	}
	l.record(Op{Kind: OpCreate, Path: name, Err: errStr(err)})
	if err != nil {
		return nil, err
	}
	return h, nil
}

func (h *handle) Write(b []byte) (int, error) {
	l := h.l
	l.mu.Lock()
	defer l.mu.Unlock()
	n, err := h.inner.Write(b)
	k := l.next()
	if n > 0 {
		h.f.Data = append(h.f.Data, b[:n]...)
		h.f.sizes = append(h.f.sizes, sizeAt{k, len(h.f.Data)})
	}
	l.record(Op{Kind: OpWrite, Path: h.f.Path, N: n, Err: errStr(err)})
	return n, err
}

func (h *handle) Close() error {
	l := h.l
	l.mu.Lock()
	defer l.mu.Unlock()
	err := h.inner.Close()
	h.f.Open = false
	h.f.Closed = true
	l.record(Op{Kind: OpClose, Path: h.f.Path, Err: errStr(err)})
	return err
}

func (l *Layer) Rename(oldpath string, newpath string) error {
	if !l.mine(oldpath) || !l.mine(newpath) {
		return l.inner.Rename(oldpath, newpath)
	}
	oldpath, newpath = filepath.Clean(oldpath), filepath.Clean(newpath)
	l.mu.Lock()
	defer l.mu.Unlock()
	err := l.inner.Rename(oldpath, newpath)
	k := l.next()
	if err == nil {
		if src := l.st.alive[oldpath]; src != nil {
			l.st.kill(src, k)
			dst := l.st.born(newpath, k)
			dst.Data = src.Data
			dst.sizes = []sizeAt{{k, len(src.Data)}}
			dst.Open, dst.Closed, dst.From = src.Open, src.Closed, src
		}
	}
	l.record(Op{Kind: OpRename, Path: oldpath, NewPath: newpath, Err: errStr(err)})
	return err
}

func (l *Layer) MkdirAll(path string, perm uint32) error {
	if !l.mine(path) {
		return l.inner.MkdirAll(path, perm)
	}
	path = filepath.Clean(path)
	l.mu.Lock()
	defer l.mu.Unlock()
	err := l.inner.MkdirAll(path, perm)
	if err == nil {
		l.st.addDir(path)
	}
	l.record(Op{Kind: OpMkdir, Path: path, Err: errStr(err)})
	return err
}

func (l *Layer) Remove(name string) error {
	if !l.mine(name) {
		return l.inner.Remove(name)
	}
	name = filepath.Clean(name)
	l.mu.Lock()
	defer l.mu.Unlock()
	err := l.inner.Remove(name)
	k := l.next()
	if err == nil {
		if f := l.st.alive[name]; f != nil {
			l.st.kill(f, k)
		} else {
			delete(l.st.dirs, name)
		}
	}
	l.record(Op{Kind: OpRemove, Path: name, Err: errStr(err)})
	return err
}

func (l *Layer) RemoveAll(path string) error {
	if !l.mine(path) {
		return l.inner.RemoveAll(path)
	}
	path = filepath.Clean(path)
	l.mu.Lock()
	defer l.mu.Unlock()
	err := l.inner.RemoveAll(path)
	k := l.next()
	if err == nil {
		pre := path + string(filepath.Separator)
		for _, f := range l.st.all {
			if f.Died < 0 && (f.Path == path || strings.HasPrefix(f.Path, pre)) {
				l.st.kill(f, k)
			}
		}
		for d := range l.st.dirs {
			if d == path || strings.HasPrefix(d, pre) {
				delete(l.st.dirs, d)
			}
		}
	}
	l.record(Op{Kind: OpRemoveAll, Path: path, Err: errStr(err)})
	return err
}

func (l *Layer) ReadFile(filename string) ([]byte, error) {
	if !l.mine(filename) {
		return l.inner.ReadFile(filename)
	}
	filename = filepath.Clean(filename)
	l.mu.Lock()
	defer l.mu.Unlock()
	b, err := l.inner.ReadFile(filename)
	l.record(Op{Kind: OpReadFile, Path: filename, N: len(b), Err: errStr(err)})
	return b, err
}

func (l *Layer) WriteFile(filename string, data []byte, perm uint32) error {
	if !l.mine(filename) {
		return l.inner.WriteFile(filename, data, perm)
	}
	filename = filepath.Clean(filename)
	l.mu.Lock()
	defer l.mu.Unlock()
	// What a real WriteFile does is open(O_CREATE|O_TRUNC), write, close; the file is observable
	// empty in between.  The shadow model shows that intermediate state only when the wrapped call
	// can succeed at all (the directory exists), so that a failing WriteFile leaves no trace.
	dirOK := l.st.dirs[filepath.Dir(filename)] || l.inner.Type() == filesystemlayer.FslTypeMemory
	var f *File
	if dirOK {
		f = l.st.born(filename, l.next())
		l.record(Op{Kind: OpWriteFileTrunc, Path: filename})
	}
	err := l.inner.WriteFile(filename, data, perm)
	k := l.next()
	if err == nil {
		if f == nil {
			f = l.st.born(filename, k)
		}
		f.Data = append([]byte(nil), data...)
		f.sizes = append(f.sizes, sizeAt{k, len(f.Data)})
		f.Closed = true
	}
	l.record(Op{Kind: OpWriteFile, Path: filename, N: len(data), Err: errStr(err)})
	return err
}
