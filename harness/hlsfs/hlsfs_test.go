package hlsfs

import (
	"os"
	"path/filepath"
	"testing"
)

func TestShadowModel(t *testing.T) {
	root := t.TempDir()
	var kinds []string
	l := New(root, nil, func(s *State, op Op) { kinds = append(kinds, op.Kind) })
	dir := filepath.Join(root, "s")
	if _, err := l.Create(filepath.Join(dir, "a.ts")); err == nil {
		t.Fatal("create in a missing directory must fail like the disk does")
	}
	if err := l.MkdirAll(dir, 0o777); err != nil {
		t.Fatal(err)
	}
	f, err := l.Create(filepath.Join(dir, "a.ts"))
	if err != nil {
		t.Fatal(err)
	}
	_, _ = f.Write([]byte("abc"))
	_, _ = f.Write([]byte("de"))
	_ = f.Close()
	_ = l.WriteFile(filepath.Join(dir, "p.bak"), []byte("v1"), 0o666)
	_ = l.Rename(filepath.Join(dir, "p.bak"), filepath.Join(dir, "p"))
	_ = l.WriteFile(filepath.Join(dir, "p.bak"), []byte("v2!"), 0o666)
	_ = l.Rename(filepath.Join(dir, "p.bak"), filepath.Join(dir, "p"))
	_ = l.Remove(filepath.Join(dir, "a.ts"))
	if _, err := l.ReadFile(filepath.Join(dir, "p")); err != nil {
		t.Fatal(err)
	}
	_ = l.RemoveAll(dir)
	// a path outside the root is passed through unrecorded
	other := filepath.Join(t.TempDir(), "x")
	_ = l.WriteFile(other, []byte("zz"), 0o666)
	if b, _ := os.ReadFile(other); string(b) != "zz" {
		t.Fatal("pass-through failed")
	}
	want := []string{"create", "mkdir", "create", "write", "write", "close", "write-file-trunc", "write-file", "rename", "write-file-trunc", "write-file", "rename", "remove", "read-file", "remove-all"}
	if len(kinds) != len(want) || l.Prefixes() != len(want) {
		t.Fatalf("ops %v", kinds)
	}
	for i := range want {
		if kinds[i] != want[i] {
			t.Fatalf("op %d: %s, want %s (%v)", i, kinds[i], want[i], kinds)
		}
	}
	l.With(func(s *State) {
		if s.Lookup(filepath.Join(dir, "p")) != nil || s.DirExists(dir) {
			t.Fatal("remove-all not mirrored")
		}
		var seg *File
		for _, g := range s.Files() {
			if g.Path == filepath.Join(dir, "a.ts") {
				seg = g
			}
		}
		if seg == nil || string(seg.Data) != "abcde" || seg.Died != 12 || string(seg.DataAt(3)) != "abc" || !seg.ExistsAt(11) || seg.ExistsAt(12) {
			t.Fatalf("shadow log of the deleted segment: %+v", seg)
		}
		p8 := s.LookupAt(filepath.Join(dir, "p"), 8)
		p11 := s.LookupAt(filepath.Join(dir, "p"), 11)
		if p8 == nil || string(p8.DataAt(8)) != "v1" || p11 == nil || string(p11.DataAt(11)) != "v2!" || p8 == p11 {
			t.Fatalf("playlist generations: %+v %+v", p8, p11)
		}
		// observable intermediate state of WriteFile: the file exists and is empty
		b := s.LookupAt(filepath.Join(dir, "p.bak"), 6)
		if b == nil || b.SizeAt(6) != 0 || b.SizeAt(7) != 2 {
			t.Fatalf("write-file steps: %+v", b)
		}
	})
}
