// Package pbt is the thin layer every check in /verif/checks uses on top of
// pgregory.net/rapid.
//
// A check is a Spec: a generator producing a JSON-serialisable case, a pure
// oracle `Run(case) -> nil | *Violation`, and a classifier that says whether a
// case is non-trivial by the property's stated rule and which labels it
// carries.  pbt.Run drives the Spec in one of two modes:
//
//   - search (default): rapid.Check with the number of cases / PRNG value /
//     shard taken from the environment (VERIF_TIER, VERIF_SEED, VERIF_SHARD,
//     VERIF_SHARDS).  Every failing invocation rewrites the replay file, so
//     the file left when rapid has finished shrinking is the minimal case.
//   - replay (VERIF_REPLAY=<file>): the saved case is decoded and handed to
//     Run directly, bypassing rapid.
//
// Statistics (cases, distinct non-trivial cases, label counts, samples) are
// written to VERIF_STATS_DIR so that the driver can merge shards into the
// evidence file.
package pbt

import (
	"crypto/sha256"
	"encoding/hex"
	"encoding/json"
	"flag"
	"fmt"
	"os"
	"path/filepath"
	"runtime"
	"runtime/debug"
	"sort"
	"strconv"
	"strings"
	"sync"
	"testing"
	"time"

	"pgregory.net/rapid"
)

// Violation describes one way a case broke the property.  Sig names *what*
// failed (never a stack hash); it is what known_findings.json matches on.
type Violation struct {
	Sig    string `json:"sig"`
	Detail string `json:"detail"`
}

func (v *Violation) String() string { return v.Sig + ": " + v.Detail }

// V builds a violation.
func V(sig, format string, args ...interface{}) *Violation {
	d := fmt.Sprintf(format, args...)
	if len(d) > 4000 {
		d = d[:4000] + "...(truncated)"
	}
	return &Violation{Sig: sig, Detail: d}
}

// Spec is one executable sub-property of a listed property.
type Spec[C any] struct {
	ID   string // property id, e.g. "C08"
	Name string // sub-property name, unique inside the property
	Gen  func(t *rapid.T) C
	Run  func(c C) *Violation
	// Classify reports whether the case is non-trivial by the rule stated in
	// the evidence file and which label classes it belongs to.
	Classify func(c C) (nontrivial bool, labels []string)
	// Cases per shard.
	Quick, Thorough int
	// Isolate: write the case to VERIF_CURRENT_DIR before executing it, so the
	// driver can recover the input when lal kills the whole process (fatal
	// error / panic in a goroutine the harness does not own).
	Isolate bool
	// Exclude, if set, returns a non-empty reason when the generated case must
	// be steered away from (a recorded known finding).  Such cases are counted
	// and skipped, never executed.
	Exclude func(c C) string
}

// ReplayFile is the on-disk form of a saved case.
type ReplayFile struct {
	Property  string          `json:"property"`
	Sub       string          `json:"sub"`
	Sig       string          `json:"sig,omitempty"`
	Detail    string          `json:"detail,omitempty"`
	Case      json.RawMessage `json:"case"`
	FoundSeed uint64          `json:"found_seed,omitempty"`
}

type stats struct {
	Property      string            `json:"property"`
	Sub           string            `json:"sub"`
	Shard         int               `json:"shard"`
	Evaluations   int               `json:"evaluations"`
	NonTrivial    int               `json:"nontrivial"`
	Hashes        []string          `json:"hashes"` // truncated sha256 of distinct non-trivial cases
	Labels        map[string]int    `json:"labels"`
	Samples       []json.RawMessage `json:"samples"`
	LabelSamples  map[string]json.RawMessage `json:"label_samples"`
	ExcludedKnown map[string]int    `json:"excluded_known"`
	Violations    []Violation       `json:"violations"`
	Replays       []string          `json:"replays"`
	WallS         float64           `json:"wall_s"`
	Requested     int               `json:"requested"`
	Extra         map[string]int    `json:"extra,omitempty"`

	seen map[string]bool
}

var extraMu sync.Mutex
var extraCounters = map[string]int{}

// Count adds to a free-form counter that ends up in the evidence file
// (e.g. number of file-system prefixes checked).
func Count(name string, n int) {
	extraMu.Lock()
	extraCounters[name] += n
	extraMu.Unlock()
}

func envInt(name string, def int) int {
	if s := os.Getenv(name); s != "" {
		if v, err := strconv.Atoi(s); err == nil {
			return v
		}
	}
	return def
}

// Tier returns "quick" or "thorough".
func Tier() string {
	if os.Getenv("VERIF_TIER") == "thorough" {
		return "thorough"
	}
	return "quick"
}

// Thorough reports whether the thorough tier is running (generators may use
// larger sizes).
func Thorough() bool { return Tier() == "thorough" }

func truncJSON(b []byte, max int) json.RawMessage {
	if len(b) <= max {
		return json.RawMessage(b)
	}
	s, _ := json.Marshal(map[string]interface{}{"truncated_json_prefix": string(b[:max]), "full_len": len(b)})
	return json.RawMessage(s)
}

func verifRoot() string {
	if r := os.Getenv("VERIF_ROOT"); r != "" {
		return r
	}
	return "/verif"
}

// Run drives the spec.
func Run[C any](t *testing.T, s Spec[C]) {
	if only := os.Getenv("VERIF_SUB"); only != "" && only != s.Name {
		t.Skip("VERIF_SUB selects another sub-property")
	}
	if rp := os.Getenv("VERIF_REPLAY"); rp != "" {
		replay(t, s, rp)
		return
	}
	if os.Getenv("VERIF_NOSEARCH") != "" {
		t.Skip("search disabled")
	}
	search(t, s)
}

func replay[C any](t *testing.T, s Spec[C], path string) {
	b, err := os.ReadFile(path)
	if err != nil {
		fmt.Printf("HARNESS-ERROR cannot read replay %s: %v\n", path, err)
		t.Skip("no replay file")
		return
	}
	var rf ReplayFile
	if err := json.Unmarshal(b, &rf); err != nil {
		fmt.Printf("HARNESS-ERROR bad replay %s: %v\n", path, err)
		t.FailNow()
	}
	if rf.Property != s.ID || rf.Sub != s.Name {
		t.Skip("replay file is for another sub-property")
		return
	}
	var c C
	if err := json.Unmarshal(rf.Case, &c); err != nil {
		fmt.Printf("HARNESS-ERROR bad case in %s: %v\n", path, err)
		t.FailNow()
	}
	fmt.Printf("REPLAY-RAN property=%s sub=%s\n", s.ID, s.Name)
	v := Guard(func() *Violation { return s.Run(c) })
	if v != nil {
		fmt.Printf("REPLAY-VIOLATION property=%s sub=%s sig=%s detail=%s\n", s.ID, s.Name, v.Sig, oneLine(v.Detail))
		t.FailNow()
	}
	fmt.Printf("REPLAY-OK property=%s sub=%s\n", s.ID, s.Name)
}

func oneLine(s string) string {
	s = strings.ReplaceAll(s, "\n", " | ")
	if len(s) > 1500 {
		s = s[:1500] + "..."
	}
	return s
}

func search[C any](t *testing.T, s Spec[C]) {
	tier := Tier()
	n := s.Quick
	if tier == "thorough" {
		n = s.Thorough
	}
	if n <= 0 {
		n = 100
	}
	if m := envInt("VERIF_CASES", 0); m > 0 {
		n = m
	}
	seed := envInt("VERIF_SEED", 1)
	shard := envInt("VERIF_SHARD", 0)
	prng := uint64(seed)*1000 + uint64(shard) + 1
	// distinct per sub-property, still a pure function of (seed, shard, name)
	h := sha256.Sum256([]byte(s.ID + "/" + s.Name))
	prng = prng*1000003 + uint64(h[0])<<8 + uint64(h[1])
	if prng == 0 {
		prng = 1
	}
	shrink := "30s"
	if tier == "thorough" {
		shrink = "120s"
	}
	if v := os.Getenv("VERIF_SHRINKTIME"); v != "" {
		shrink = v
	}
	must(flag.Set("rapid.checks", strconv.Itoa(n)))
	must(flag.Set("rapid.seed", strconv.FormatUint(prng, 10)))
	must(flag.Set("rapid.nofailfile", "true"))
	must(flag.Set("rapid.shrinktime", shrink))

	st := &stats{Property: s.ID, Sub: s.Name, Shard: shard, Labels: map[string]int{}, LabelSamples: map[string]json.RawMessage{},
		ExcludedKnown: map[string]int{}, seen: map[string]bool{}, Requested: n}
	known := loadKnown(s.ID)
	replayDir := filepath.Join(verifRoot(), "evidence", "replay")
	if d := os.Getenv("VERIF_REPLAY_DIR"); d != "" {
		replayDir = d
	}
	curDir := os.Getenv("VERIF_CURRENT_DIR")
	curPath := filepath.Join(curDir, fmt.Sprintf("%s.%s.%d.current.json", s.ID, sanitize(s.Name), shard))
	if s.Isolate && curDir != "" {
		_ = os.MkdirAll(curDir, 0o755)
		defer os.Remove(curPath)
	}
	start := time.Now()
	var lastReplay string
	var lastViolation *Violation
	defer func() {
		st.WallS = time.Since(start).Seconds()
		if lastViolation != nil {
			st.Violations = append(st.Violations, *lastViolation)
			st.Replays = append(st.Replays, lastReplay)
		}
		extraMu.Lock()
		if len(extraCounters) > 0 {
			st.Extra = map[string]int{}
			for k, v := range extraCounters {
				st.Extra[k] = v
			}
		}
		extraMu.Unlock()
		writeStats(st)
	}()

	rapid.Check(t, func(rt *rapid.T) {
		c := s.Gen(rt)
		if s.Exclude != nil {
			if why := s.Exclude(c); why != "" {
				st.ExcludedKnown[why]++
				return
			}
		}
		cb, err := json.Marshal(c)
		if err != nil {
			panic("pbt: case not serialisable: " + err.Error())
		}
		st.Evaluations++
		if s.Classify != nil {
			nt, labels := s.Classify(c)
			for _, l := range labels {
				st.Labels[l]++
				if _, ok := st.LabelSamples[l]; !ok && len(st.LabelSamples) < 40 {
					st.LabelSamples[l] = truncJSON(cb, 600)
				}
			}
			if nt {
				st.NonTrivial++
				hh := sha256.Sum256(cb)
				k := hex.EncodeToString(hh[:8])
				if !st.seen[k] {
					st.seen[k] = true
					st.Hashes = append(st.Hashes, k)
					if len(st.Samples) < 3 {
						st.Samples = append(st.Samples, truncJSON(cb, 2048))
					}
				}
			}
		}
		if s.Isolate && curDir != "" {
			rf := ReplayFile{Property: s.ID, Sub: s.Name, Sig: "process-death", Case: cb, FoundSeed: prng}
			rb, _ := json.Marshal(rf)
			_ = os.WriteFile(curPath, rb, 0o644)
		}
		v := Guard(func() *Violation { return s.Run(c) })
		if v == nil {
			return
		}
		if why, ok := known[v.Sig]; ok {
			_ = why
			st.ExcludedKnown["sig:"+v.Sig]++
			return
		}
		// save (overwrite) the replay file: the last failing invocation is the
		// minimal one after shrinking
		_ = os.MkdirAll(replayDir, 0o755)
		name := fmt.Sprintf("%s-%s-s%d-%d.json", s.ID, sanitize(s.Name), seed, shard)
		p := filepath.Join(replayDir, name)
		rf := ReplayFile{Property: s.ID, Sub: s.Name, Sig: v.Sig, Detail: v.Detail, Case: cb, FoundSeed: prng}
		rb, _ := json.MarshalIndent(rf, "", " ")
		_ = os.WriteFile(p, rb, 0o644)
		lastReplay = p
		lastViolation = v
		rt.Fatalf("violation %s: %s", v.Sig, v.Detail)
	})
}

func sanitize(s string) string {
	r := []rune(s)
	for i, c := range r {
		if !(c >= 'a' && c <= 'z' || c >= 'A' && c <= 'Z' || c >= '0' && c <= '9' || c == '-' || c == '_') {
			r[i] = '_'
		}
	}
	return string(r)
}

func must(err error) {
	if err != nil {
		panic(err)
	}
}

func writeStats(st *stats) {
	dir := os.Getenv("VERIF_STATS_DIR")
	if dir == "" {
		return
	}
	_ = os.MkdirAll(dir, 0o755)
	sort.Strings(st.Hashes)
	b, _ := json.Marshal(st)
	_ = os.WriteFile(filepath.Join(dir, fmt.Sprintf("%s.%s.%d.json", st.Property, sanitize(st.Sub), st.Shard)), b, 0o644)
}

// KnownFinding is one entry of /verif/known_findings.json.
type KnownFinding struct {
	Property  string `json:"property"`
	Status    string `json:"status"` // "known" | "fixed"
	Signature string `json:"signature"`
	Commit    string `json:"commit,omitempty"`
	What      string `json:"what"`
	Replay    string `json:"replay,omitempty"`
}

// LoadKnownFindings reads the committed list (never written at run time).
func LoadKnownFindings() []KnownFinding {
	p := os.Getenv("VERIF_KNOWN")
	if p == "" {
		p = filepath.Join(verifRoot(), "known_findings.json")
	}
	b, err := os.ReadFile(p)
	if err != nil {
		return nil
	}
	var f struct {
		Findings []KnownFinding `json:"findings"`
	}
	if json.Unmarshal(b, &f) != nil {
		return nil
	}
	return f.Findings
}

func loadKnown(id string) map[string]string {
	m := map[string]string{}
	for _, k := range LoadKnownFindings() {
		if k.Property == id && k.Status == "known" {
			m[k.Signature] = k.What
		}
	}
	return m
}

// IsKnown reports whether sig is recorded as a known (unrepaired) finding of
// property id; generators use it to steer away by construction.
func IsKnown(id, sig string) bool {
	_, ok := loadKnownCached(id)[sig]
	return ok
}

var knownCache sync.Map

func loadKnownCached(id string) map[string]string {
	if v, ok := knownCache.Load(id); ok {
		return v.(map[string]string)
	}
	m := loadKnown(id)
	knownCache.Store(id, m)
	return m
}

// HarnessError is panicked by harness code when the harness itself (not lal)
// is at fault; Guard lets it through so that it is never reported as a
// violation.
type HarnessError struct{ Msg string }

func (h HarnessError) Error() string { return "harness error: " + h.Msg }

// Guard runs f and converts a panic whose stack contains a lal (or naza
// called from lal) frame into a Violation whose signature names the innermost
// lal function.  Panics with no lal frame are harness bugs and are re-raised.
func Guard(f func() *Violation) (v *Violation) {
	defer func() {
		if r := recover(); r != nil {
			if he, ok := r.(HarnessError); ok {
				panic(he)
			}
			stack := string(debug.Stack())
			v = PanicViolation(r, stack)
			if v == nil {
				panic(fmt.Sprintf("harness panic (no lal frame): %v\n%s", r, stack))
			}
		}
	}()
	return f()
}

// PanicViolation builds the violation for a recovered panic value and its
// stack, or nil when no lal frame is on the stack.
func PanicViolation(r interface{}, stack string) *Violation {
	fn := InnermostLalFrame(stack)
	if fn == "" {
		return nil
	}
	msg := fmt.Sprint(r)
	if e, ok := r.(runtime.Error); ok {
		msg = e.Error()
	}
	return &Violation{Sig: "panic@" + fn, Detail: fmt.Sprintf("panic: %s\n%s", msg, trimStack(stack))}
}

// InnermostLalFrame returns the function name of the innermost stack frame
// that belongs to github.com/q191201771/lal, or "".
func InnermostLalFrame(stack string) string {
	for _, line := range strings.Split(stack, "\n") {
		line = strings.TrimSpace(line)
		if strings.HasPrefix(line, "github.com/q191201771/lal/") {
			fn := strings.TrimPrefix(line, "github.com/q191201771/lal/")
			if i := strings.LastIndex(fn, "("); i > 0 {
				fn = fn[:i]
			}
			// strip generic / closure suffixes for stability
			fn = strings.TrimSuffix(fn, ".func1")
			return fn
		}
	}
	return ""
}

func trimStack(s string) string {
	lines := strings.Split(s, "\n")
	var out []string
	for _, l := range lines {
		if strings.Contains(l, "runtime/debug.Stack") || strings.Contains(l, "pbt.Guard") {
			continue
		}
		out = append(out, l)
		if len(out) > 40 {
			break
		}
	}
	return strings.Join(out, "\n")
}

// WithTimeout runs f in a goroutine; if it does not return within d the
// result is stalled=true (the goroutine is abandoned — the caller should treat
// the process as tainted).  Panics in f are converted like Guard.
func WithTimeout(d time.Duration, f func() *Violation) (v *Violation, stalled bool) {
	ch := make(chan *Violation, 1)
	go func() {
		var res *Violation
		defer func() {
			if r := recover(); r != nil {
				stack := string(debug.Stack())
				res = PanicViolation(r, stack)
				if res == nil {
					res = &Violation{Sig: "harness-panic", Detail: fmt.Sprintf("%v\n%s", r, stack)}
				}
			}
			ch <- res
		}()
		res = f()
	}()
	select {
	case v = <-ch:
		if v != nil && v.Sig == "harness-panic" {
			panic(HarnessError{Msg: v.Detail})
		}
		return v, false
	case <-time.After(d):
		return nil, true
	}
}

// AllGoroutines returns a dump of all goroutine stacks.
func AllGoroutines() string {
	buf := make([]byte, 1<<20)
	for {
		n := runtime.Stack(buf, true)
		if n < len(buf) {
			return string(buf[:n])
		}
		buf = make([]byte, 2*len(buf))
	}
}

// StuckGoroutine samples all goroutine stacks twice (gap apart) and reports the
// stack of a goroutine whose trace contains marker and which is parked in the
// same blocking state in both samples.  A goroutine that is running / runnable,
// or that moved, is not stuck (slow machine); absent = the work has finished.
func StuckGoroutine(marker string, gap time.Duration) (stuck bool, stack string) {
	find := func(dump string) map[string]string {
		out := map[string]string{}
		for _, blk := range strings.Split(dump, "\n\n") {
			if !strings.Contains(blk, marker) {
				continue
			}
			lines := strings.SplitN(blk, "\n", 2)
			hdr := lines[0] // goroutine 12 [IO wait]:
			id := hdr
			if i := strings.Index(hdr, " ["); i > 0 {
				id = hdr[:i]
			}
			out[id] = blk
		}
		return out
	}
	a := find(AllGoroutines())
	if len(a) == 0 {
		return false, ""
	}
	time.Sleep(gap)
	b := find(AllGoroutines())
	for id, s1 := range a {
		s2, ok := b[id]
		if !ok {
			continue
		}
		h := strings.SplitN(s1, "\n", 2)[0]
		if strings.Contains(h, "[running") || strings.Contains(h, "[runnable") {
			continue
		}
		// compare stacks without the "N minutes" annotation of the header
		body1 := strings.SplitN(s1, "\n", 2)
		body2 := strings.SplitN(s2, "\n", 2)
		if len(body1) == 2 && len(body2) == 2 && body1[1] == body2[1] {
			return true, s1
		}
	}
	return false, ""
}
